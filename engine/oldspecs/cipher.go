//go:build verif

package cipher

func vsForall(lo, hi int, f func(int) bool) bool {
	for i := lo; i < hi; i++ {
		if !f(i) {
			return false
		}
	}
	return true
}

// ---- XTEA: decrypt inverts encrypt on every 24-byte buffer, for every key
//@ lemma github.com/emitter-io/emitter/internal/security/cipher.lemmaXtea pre=pre_lemmaXtea
//@ loop (*github.com/emitter-io/emitter/internal/security/cipher.Xtea).encrypt 0 unroll 3
//@ loop (*github.com/emitter-io/emitter/internal/security/cipher.Xtea).encrypt 1 unroll 32
//@ loop (*github.com/emitter-io/emitter/internal/security/cipher.Xtea).decrypt 0 unroll 3
//@ loop (*github.com/emitter-io/emitter/internal/security/cipher.Xtea).decrypt 1 unroll 32
func pre_lemmaXtea(c *Xtea, d []byte) bool { return c != nil && len(d) == 24 }
func lemmaXtea(c *Xtea, d []byte) bool {
	old := make([]byte, 24)
	copy(old, d)
	c.encrypt(d)
	c.decrypt(d)
	return vsForall(0, 24, func(i int) bool { return d[i] == old[i] })
}

// ---- decodeKey: safety + shape, separate buffers
//@ verify github.com/emitter-io/emitter/internal/security/cipher.decodeKey pre=pre_decodeKey post=post_decodeKey
//@ loop github.com/emitter-io/emitter/internal/security/cipher.decodeKey 0 inv inv_decodeKey_0
//@ loop github.com/emitter-io/emitter/internal/security/cipher.decodeKey 1 unroll 4
func pre_decodeKey(dst, src []byte) bool { return len(src) == 32 && len(dst) >= 24 }
func inv_decodeKey_0(idx int, n int, dst []byte, src []byte, old_dst []byte, err error) bool {
	return 0 <= idx && idx <= 32 && idx%4 == 0 && n == idx/4*3 && len(dst) == len(old_dst)-n && len(src) == 32 && err == nil
}
func post_decodeKey(res0 int, res1 error) bool {
	return res1 != nil || res0 == 24
}
