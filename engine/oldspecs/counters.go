//go:build verif

package message

func vsForallKey(m map[uint32]*Counter, f func(uint32) bool) bool {
	for k := range m {
		if !f(k) {
			return false
		}
	}
	return true
}
func vsHas(m map[uint32]*Counter, k uint32) bool { _, ok := m[k]; return ok }
func vsOldB(f func() bool) bool                  { panic("ghost") }
func vsOldI(f func() int) int                    { panic("ghost") }
func vsOldP(f func() *Counter) *Counter          { panic("ghost") }

//@ opaque (github.com/emitter-io/emitter/internal/message.Ssid).GetHashCode

// representation invariant: stored pointers are non-nil, pairwise distinct, every stored count is >= 1
func specRep(s *Counters) bool {
	return s != nil && s.m != nil &&
		vsForallKey(s.m, func(k uint32) bool { return !vsHas(s.m, k) || (s.m[k] != nil && s.m[k].Counter >= 1) }) &&
		vsForallKey(s.m, func(k1 uint32) bool {
			return vsForallKey(s.m, func(k2 uint32) bool {
				return !vsHas(s.m, k1) || !vsHas(s.m, k2) || k1 == k2 || s.m[k1] != s.m[k2]
			})
		})
}
func specCnt(s *Counters, k uint32) int {
	if !vsHas(s.m, k) {
		return 0
	}
	return s.m[k].Counter
}
func oldCnt(s *Counters, k uint32) int { return vsOldI(func() int { return specCnt(s, k) }) }

// ---- IncrementOnce: first <=> the (hashed) filter was not held; afterwards it is held exactly once
//@ verify (*github.com/emitter-io/emitter/internal/message.Counters).IncrementOnce pre=pre_Counters post=post_IncrementOnce,post_Rep
func pre_Counters(s *Counters, ssid Ssid) bool { return specRep(s) && len(ssid) >= 1 }
func post_IncrementOnce(s *Counters, ssid Ssid, res0 bool) bool {
	h := ssid.GetHashCode()
	return res0 == (oldCnt(s, h) == 0) && specCnt(s, h) == specMaxI(oldCnt(s, h), 1) &&
		vsForallKey(s.m, func(k uint32) bool { return k == h || specCnt(s, k) == oldCnt(s, k) })
}
func specMaxI(a, b int) int {
	if a < b {
		return b
	}
	return a
}
func post_Rep(s *Counters) bool { return specRep(s) }

// ---- Decrement: last <=> the count reaches 0, and then the entry is gone
//@ verify (*github.com/emitter-io/emitter/internal/message.Counters).Decrement pre=pre_Counters post=post_Decrement,post_Rep
func post_Decrement(s *Counters, ssid Ssid, res0 bool) bool {
	h := ssid.GetHashCode()
	return res0 == (oldCnt(s, h) == 1) &&
		specCnt(s, h) == specMaxI(oldCnt(s, h)-1, 0) &&
		vsForallKey(s.m, func(k uint32) bool { return k == h || specCnt(s, k) == oldCnt(s, k) })
}
