//go:build verif

package crdt

func vsHas(m map[string]Value, k string) bool { _, ok := m[k]; return ok }

func specBE64(v []byte, i int) int64 {
	return int64(uint64(v[i])<<56 | uint64(v[i+1])<<48 | uint64(v[i+2])<<40 | uint64(v[i+3])<<32 |
		uint64(v[i+4])<<24 | uint64(v[i+5])<<16 | uint64(v[i+6])<<8 | uint64(v[i+7]))
}
func specAdd(m map[string]Value, k string) int64 {
	if !vsHas(m, k) {
		return 0
	}
	return specBE64(m[k], 0)
}
func specDel(m map[string]Value, k string) int64 {
	if !vsHas(m, k) {
		return 0
	}
	return specBE64(m[k], 8)
}
func specMax(a, b int64) int64 {
	if a < b {
		return b
	}
	return a
}
func specDeltaT(mine, theirs int64) int64 {
	if mine < theirs {
		return theirs
	}
	return 0
}
func mkValue(a, d int64) Value {
	v := newValue()
	v.setAddTime(a)
	v.setDelTime(d)
	return v
}

// BOUNDED stand-in, smallest shape: one entry each, keys possibly equal.
//@ lemma github.com/emitter-io/emitter/internal/event/crdt.harnessMerge1 pre=pre_harnessMerge1
//@ loop (*github.com/emitter-io/emitter/internal/event/crdt.Volatile).Merge 0 unroll 1
func pre_harnessMerge1(k1, k2 string, a1, d1, a2, d2 int64) bool { return a1 >= 0 && d1 >= 0 }
func harnessMerge1(k1, k2 string, a1, d1, a2, d2 int64) bool {
	s, r := NewVolatile(), NewVolatile()
	s.data[k1] = mkValue(a1, d1)
	r.data[k2] = mkValue(a2, d2)
	sa, sd := specAdd(s.data, k2), specDel(s.data, k2)
	s.Merge(r)
	return specAdd(s.data, k2) == specMax(sa, a2) && specDel(s.data, k2) == specMax(sd, d2) &&
		vsHas(r.data, k2) == (sa < a2 || sd < d2) &&
		(!vsHas(r.data, k2) || (specAdd(r.data, k2) == specDeltaT(sa, a2) && specDel(r.data, k2) == specDeltaT(sd, d2)))
}
