//go:build verif

package mqtt

func vsForall(lo, hi int, f func(int) bool) bool {
	for i := lo; i < hi; i++ {
		if !f(i) {
			return false
		}
	}
	return true
}

// ---- writeUint16
//@ verify github.com/emitter-io/emitter/internal/network/mqtt.writeUint16 pre=pre_writeUint16 post=post_writeUint16
func pre_writeUint16(buf []byte) bool { return len(buf) >= 2 }
func post_writeUint16(buf []byte, v uint16, old_buf []byte, res0 int) bool {
	return res0 == 2 && buf[0] == byte(v>>8) && buf[1] == byte(v) &&
		vsForall(2, len(buf), func(i int) bool { return buf[i] == old_buf[i] })
}

// ---- encodeLength: spec from MQTT 3.1.1 2.2.3
func specRLBytes(n uint32) uint8 {
	if n < 128 {
		return 1
	}
	if n <= 16384 {
		return 2
	}
	if n < 2097152 {
		return 3
	}
	return 4
}

// digit k counted from the least significant 7-bit group
func specRLDigit(n uint32, k uint8) uint32 {
	d := (n >> (7 * uint32(k))) & 0x7f
	if k+1 < specRLBytes(n) {
		d |= 0x80
	}
	return d
}

// the field as encodeLength packs it: first digit (least significant group) in the most significant used byte
func specRLField(n uint32) uint32 {
	switch specRLBytes(n) {
	case 1:
		return specRLDigit(n, 0)
	case 2:
		return specRLDigit(n, 0)<<8 | specRLDigit(n, 1)
	case 3:
		return specRLDigit(n, 0)<<16 | specRLDigit(n, 1)<<8 | specRLDigit(n, 2)
	}
	return specRLDigit(n, 0)<<24 | specRLDigit(n, 1)<<16 | specRLDigit(n, 2)<<8 | specRLDigit(n, 3)
}

//@ verify github.com/emitter-io/emitter/internal/network/mqtt.encodeLength pre=pre_encodeLength post=post_encodeLength
//@ loop github.com/emitter-io/emitter/internal/network/mqtt.encodeLength 0 unroll 4
func pre_encodeLength(bodyLength uint32) bool { return bodyLength < 268435456 }
func post_encodeLength(bodyLength uint32, res0 uint8, res1 uint32) bool {
	return res0 == specRLBytes(bodyLength) && res1 == specRLField(bodyLength)
}

// ---- readString
//@ verify github.com/emitter-io/emitter/internal/network/mqtt.readString pre=pre_readString post=post_readString
func pre_readString(b []byte, startsAt *uint32) bool {
	return startsAt != nil && int(*startsAt)+2 <= len(b) && len(b) <= 65536
}
func post_readString(b []byte, startsAt *uint32, res0 []byte, res1 error) bool {
	return res1 != nil || int(*startsAt) <= len(b)
}

// ---- lemma: readUint16 inverts writeUint16
//@ lemma github.com/emitter-io/emitter/internal/network/mqtt.lemmaU16 pre=pre_lemmaU16
func pre_lemmaU16(buf []byte) bool { return len(buf) >= 2 }
func lemmaU16(buf []byte, v uint16) bool {
	writeUint16(buf, v)
	at := uint32(0)
	return readUint16(buf, &at) == v && at == 2
}
