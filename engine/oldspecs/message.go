//go:build verif

package message

func vsForall(lo, hi int, f func(int) bool) bool {
	for i := lo; i < hi; i++ {
		if !f(i) {
			return false
		}
	}
	return true
}

func specBE32(d []byte, i int) uint32 {
	return uint32(d[i])<<24 | uint32(d[i+1])<<16 | uint32(d[i+2])<<8 | uint32(d[i+3])
}

// ---- ID.Ssid: word i of the result is the big-endian word at 16+4i
//@ verify (github.com/emitter-io/emitter/internal/message.ID).Ssid pre=pre_Ssid post=post_Ssid
//@ loop (github.com/emitter-io/emitter/internal/message.ID).Ssid 0 inv inv_Ssid_0
func pre_Ssid(id ID) bool { return len(id) >= 16 && len(id) <= 65536 }
func inv_Ssid_0(i int, ssid Ssid, id ID) bool {
	return 0 <= i && i <= len(ssid) && len(ssid) == (len(id)-16)/4 &&
		vsForall(0, i, func(j int) bool { return ssid[j] == specBE32(id, 16+4*j) })
}
func post_Ssid(id ID, res0 Ssid) bool {
	return len(res0) == (len(id)-16)/4 &&
		vsForall(0, len(res0), func(j int) bool { return res0[j] == specBE32(id, 16+4*j) })
}

// ---- ID.Match against the statement of C06
//@ verify (github.com/emitter-io/emitter/internal/message.ID).Match pre=pre_Match post=post_Match
//@ loop (github.com/emitter-io/emitter/internal/message.ID).Match 0 inv inv_Match_0
func pre_Match(id ID, query Ssid) bool { return len(id) <= 65536 && len(query) <= 65536 }
func specWordOK(id ID, query Ssid, j int) bool {
	return query[j] == specBE32(id, 16+4*j) || query[j] == wildcard || query[j] == multiWildcard
}
func inv_Match_0(i int, id ID, query Ssid) bool {
	return -1 <= i && i < len(query) && 4*len(query) <= len(id)-16 &&
		vsForall(i+1, len(query), func(j int) bool { return specWordOK(id, query, j) })
}
func specTime(id ID) int64 { return int64(4294967295-specBE32(id, 4)) + offset }
func post_Match(id ID, query Ssid, from int64, until int64, res0 bool) bool {
	return res0 == (4*len(query) <= len(id)-16 &&
		vsForall(0, len(query), func(j int) bool { return specWordOK(id, query, j) }) &&
		from <= specTime(id) && specTime(id) <= until)
}
