//go:build verif

package cipher

func vsForall(lo, hi int, f func(int) bool) bool {
	for i := lo; i < hi; i++ {
		if !f(i) {
			return false
		}
	}
	return true
}

func specBE32(d []byte, i int) uint32 {
	return uint32(d[i])<<24 | uint32(d[i+1])<<16 | uint32(d[i+2])<<8 | uint32(d[i+3])
}

// word-level XTEA, 32 rounds, as published (Needham/Wheeler 1997)
//@ loop github.com/emitter-io/emitter/internal/security/cipher.specXteaEnc 0 unroll 32
//@ loop github.com/emitter-io/emitter/internal/security/cipher.specXteaDec 0 unroll 32
func specXteaEnc(y, z uint32, k [4]uint32) uint64 {
	sum := uint32(0)
	for r := 0; r < 32; r++ {
		y += (((z << 4) ^ (z >> 5)) + z) ^ (sum + k[sum&3])
		sum += 0x9E3779B9
		z += (((y << 4) ^ (y >> 5)) + y) ^ (sum + k[(sum>>11)&3])
	}
	return uint64(y)<<32 | uint64(z)
}
func specXteaDec(y, z uint32, k [4]uint32) uint64 {
	sum := uint32(0xC6EF3720)
	for r := 0; r < 32; r++ {
		z -= (((y << 4) ^ (y >> 5)) + y) ^ (sum + k[(sum>>11)&3])
		sum -= 0x9E3779B9
		y -= (((z << 4) ^ (z >> 5)) + z) ^ (sum + k[sum&3])
	}
	return uint64(y)<<32 | uint64(z)
}

//@ lemma github.com/emitter-io/emitter/internal/security/cipher.lemmaXteaWords
func lemmaXteaWords(y, z uint32, k [4]uint32) bool {
	e := specXteaEnc(y, z, k)
	return specXteaDec(uint32(e>>32), uint32(e), k) == uint64(y)<<32|uint64(z)
}

//@ verify (*github.com/emitter-io/emitter/internal/security/cipher.Xtea).encrypt pre=pre_encrypt post=post_encrypt
//@ loop (*github.com/emitter-io/emitter/internal/security/cipher.Xtea).encrypt 0 unroll 3
//@ loop (*github.com/emitter-io/emitter/internal/security/cipher.Xtea).encrypt 1 unroll 32
func pre_encrypt(c *Xtea, data []byte) bool { return c != nil && len(data) == 24 }
func post_encrypt(c *Xtea, data []byte, old_data []byte) bool {
	return vsForall(0, 3, func(b int) bool {
		e := specXteaEnc(specBE32(old_data, 8*b), specBE32(old_data, 8*b+4), c.key)
		return specBE32(data, 8*b) == uint32(e>>32) && specBE32(data, 8*b+4) == uint32(e)
	})
}

//@ verify (*github.com/emitter-io/emitter/internal/security/cipher.Xtea).decrypt pre=pre_encrypt post=post_decrypt
//@ loop (*github.com/emitter-io/emitter/internal/security/cipher.Xtea).decrypt 0 unroll 3
//@ loop (*github.com/emitter-io/emitter/internal/security/cipher.Xtea).decrypt 1 unroll 32
func post_decrypt(c *Xtea, data []byte, old_data []byte) bool {
	return vsForall(0, 3, func(b int) bool {
		e := specXteaDec(specBE32(old_data, 8*b), specBE32(old_data, 8*b+4), c.key)
		return specBE32(data, 8*b) == uint32(e>>32) && specBE32(data, 8*b+4) == uint32(e)
	})
}
