//go:build verif

package cipher

func vsForall(lo, hi int, f func(int) bool) bool {
	for i := lo; i < hi; i++ {
		if !f(i) {
			return false
		}
	}
	return true
}

// byte q of the decoding of the 32 base64url characters s (RFC 4648: 4 sextets -> 3 bytes, big-endian)
func specDecByte(s []byte, q int) byte {
	k, r := q/3, q%3
	v := uint32(decodeMap[s[4*k]])<<18 | uint32(decodeMap[s[4*k+1]])<<12 | uint32(decodeMap[s[4*k+2]])<<6 | uint32(decodeMap[s[4*k+3]])
	if r == 0 {
		return byte(v >> 16)
	}
	if r == 1 {
		return byte(v >> 8)
	}
	return byte(v)
}

// in-place use: decodeKey(buffer, buffer)
//@ verify github.com/emitter-io/emitter/internal/security/cipher.decodeKey pre=pre_decodeKey post=post_decodeKey
//@ loop github.com/emitter-io/emitter/internal/security/cipher.decodeKey 0 unroll 8
//@ loop github.com/emitter-io/emitter/internal/security/cipher.decodeKey 1 unroll 4
func pre_decodeKey(dst, src []byte) bool { return len(src) == 32 && len(dst) == 32 && &dst[0] == &src[0] }
func inv_decodeKey_0(idx int, n int, dst []byte, src []byte, old_src []byte, err error) bool {
	return 0 <= idx && idx <= 32 && idx%4 == 0 && n == idx/4*3 && len(dst) == 32-n && len(src) == 32 && err == nil &&
		(n == 24 || &dst[0] == &src[n]) &&
		vsForall(idx, 32, func(p int) bool { return src[p] == old_src[p] }) &&
		vsForall(0, n, func(q int) bool { return src[q] == specDecByte(old_src, q) })
}
func post_decodeKey(src []byte, old_src []byte, res0 int, res1 error) bool {
	return res1 != nil || (res0 == 24 && vsForall(0, 24, func(q int) bool { return src[q] == specDecByte(old_src, q) }))
}
