//go:build verif

package message

import "github.com/emitter-io/emitter/internal/security/hash"

//@ opaque github.com/emitter-io/emitter/internal/security/hash.OfString

type specSub struct{ id string }

func (s *specSub) ID() string              { return s.id }
func (s *specSub) Type() SubscriberType    { return SubscriberDirect }
func (s *specSub) Send(m *Message) error   { return nil }

// emitter mode, from the statement of C01: filter is a level-wise prefix, '+' matches one level
func specMatch1(f1, q1 uint32) bool { return f1 == q1 || f1 == wildcard }

// BOUNDED stand-in: one subscription of depth 1 (below the contract word), lookup of depth 2; all words symbolic.
//@ skip pre=pre_harnessTrie1
func pre_harnessTrie1(c, a, q0, q1, q2 uint32, id string) bool {
	return a != share && q1 != share && c != wildcard && c != multiWildcard
}
func harnessTrie1(c, a, q0, q1, q2 uint32, id string) bool {
	t := NewTrie()
	s1 := &specSub{id: id}
	t.Subscribe(Ssid{c, a}, s1)
	r := t.Lookup(Ssid{q0, q1, q2}, nil)
	want := c == q0 && specMatch1(a, q1)
	ok1 := r.Contains(s1) == want && t.Count() == 1
	t.Unsubscribe(Ssid{c, a}, s1)
	return ok1 && t.Count() == 0 && len(t.root.children) == 0
}

// BOUNDED stand-in 2: two subscribers, filters [c,a] and [c,a2,b2]; channel [q0,q1,q2]; remove the first, look again.
//@ lemma github.com/emitter-io/emitter/internal/message.harnessTrie2 pre=pre_harnessTrie2
func pre_harnessTrie2(c, a, a2, b2, q0, q1, q2 uint32, id1, id2 string) bool {
	return a != share && a2 != share && q1 != share && c != wildcard && c != multiWildcard &&
		hash.OfString(id1) != hash.OfString(id2)
}
func harnessTrie2(c, a, a2, b2, q0, q1, q2 uint32, id1, id2 string) bool {
	t := NewTrie()
	s1, s2 := &specSub{id: id1}, &specSub{id: id2}
	t.Subscribe(Ssid{c, a}, s1)
	t.Subscribe(Ssid{c, a2, b2}, s2)
	want1 := c == q0 && specMatch1(a, q1)
	want2 := c == q0 && specMatch1(a2, q1) && specMatch1(b2, q2)
	r := t.Lookup(Ssid{q0, q1, q2}, nil)
	ok1 := r.Contains(s1) == want1 && r.Contains(s2) == want2 && t.Count() == 2
	t.Unsubscribe(Ssid{c, a}, s1)
	r2 := t.Lookup(Ssid{q0, q1, q2}, nil)
	ok2 := !r2.Contains(s1) && r2.Contains(s2) == want2 && t.Count() == 1
	t.Unsubscribe(Ssid{c, a2, b2}, s2)
	return ok1 && ok2 && t.Count() == 0 && len(t.root.children) == 0
}
