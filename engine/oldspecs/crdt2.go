//go:build verif

package crdt

func vsHas(m map[string]Value, k string) bool { _, ok := m[k]; return ok }

func specBE64(v []byte, i int) int64 {
	return int64(uint64(v[i])<<56 | uint64(v[i+1])<<48 | uint64(v[i+2])<<40 | uint64(v[i+3])<<32 |
		uint64(v[i+4])<<24 | uint64(v[i+5])<<16 | uint64(v[i+6])<<8 | uint64(v[i+7]))
}
func specAdd(m map[string]Value, k string) int64 {
	if !vsHas(m, k) {
		return 0
	}
	return specBE64(m[k], 0)
}
func specDel(m map[string]Value, k string) int64 {
	if !vsHas(m, k) {
		return 0
	}
	return specBE64(m[k], 8)
}
func specMax(a, b int64) int64 {
	if a < b {
		return b
	}
	return a
}
func specDeltaT(mine, theirs int64) int64 {
	if mine < theirs {
		return theirs
	}
	return 0
}
func mkValue(a, d int64) Value {
	v := newValue()
	v.setAddTime(a)
	v.setDelTime(d)
	return v
}

// expected view of one key after s.Merge(r), given the views before
func specKeyOK(s, r *Volatile, k string, sa, sd, ra, rd int64, rHad bool) bool {
	okS := specAdd(s.data, k) == specMax(sa, ra) && specDel(s.data, k) == specMax(sd, rd)
	if !rHad {
		return okS && !vsHas(r.data, k)
	}
	return okS && vsHas(r.data, k) == (sa < ra || sd < rd) &&
		(!vsHas(r.data, k) || (specAdd(r.data, k) == specDeltaT(sa, ra) && specDel(r.data, k) == specDeltaT(sd, rd)))
}

// BOUNDED stand-in: s has <= 1 entry, r has <= 2 entries; every key equality and every time symbolic.
//@ lemma github.com/emitter-io/emitter/internal/event/crdt.harnessMerge pre=pre_harnessMerge
//@ loop (*github.com/emitter-io/emitter/internal/event/crdt.Volatile).Merge 0 unroll 2
func pre_harnessMerge(k1, k2, k3, kx string, a1, d1, a2, d2, a3, d3 int64) bool {
	return a1 >= 0 && d1 >= 0 && k2 != k3
}
func harnessMerge(k1, k2, k3, kx string, a1, d1, a2, d2, a3, d3 int64) bool {
	s, r := NewVolatile(), NewVolatile()
	s.data[k1] = mkValue(a1, d1)
	r.data[k2] = mkValue(a2, d2)
	r.data[k3] = mkValue(a3, d3)
	// views before
	sa2, sd2 := specAdd(s.data, k2), specDel(s.data, k2)
	sa3, sd3 := specAdd(s.data, k3), specDel(s.data, k3)
	sax, sdx := specAdd(s.data, kx), specDel(s.data, kx)
	s.Merge(r)
	return specKeyOK(s, r, k2, sa2, sd2, a2, d2, true) &&
		specKeyOK(s, r, k3, sa3, sd3, a3, d3, true) &&
		(kx == k2 || kx == k3 || specKeyOK(s, r, kx, sax, sdx, 0, 0, false))
}
