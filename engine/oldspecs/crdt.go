//go:build verif

package crdt

// ---- ghost helpers (executable definitions; the verifier treats them as intrinsics)
func vsForallKey(m map[string]Value, f func(string) bool) bool {
	for k := range m {
		if !f(k) {
			return false
		}
	}
	return true
}
func vsHas(m map[string]Value, k string) bool  { _, ok := m[k]; return ok }
func vsRanged(m map[string]Value, k string) bool { panic("ghost") }
func vsOldI(f func() int64) int64               { panic("ghost") }
func vsOldB(f func() bool) bool                 { panic("ghost") }
func vsSameMap(a, b map[string]Value) bool      { panic("ghost") }
func vsDisjoint(a, b []byte) bool               { panic("ghost") }

func specBE64(v []byte, i int) int64 {
	return int64(uint64(v[i])<<56 | uint64(v[i+1])<<48 | uint64(v[i+2])<<40 | uint64(v[i+3])<<32 |
		uint64(v[i+4])<<24 | uint64(v[i+5])<<16 | uint64(v[i+6])<<8 | uint64(v[i+7]))
}

// abstract view: (add, del) with (0,0) for absent keys
func specAdd(m map[string]Value, k string) int64 {
	if !vsHas(m, k) {
		return 0
	}
	return specBE64(m[k], 0)
}
func specDel(m map[string]Value, k string) int64 {
	if !vsHas(m, k) {
		return 0
	}
	return specBE64(m[k], 8)
}

// representation invariant of one set: V (len >= 16), N (times >= 0 when nonneg), entries do not share bytes
func specWF(m map[string]Value, nonneg bool) bool {
	return m != nil &&
		vsForallKey(m, func(k string) bool {
			return !vsHas(m, k) || (len(m[k]) >= 16 && (!nonneg || (specBE64(m[k], 0) >= 0 && specBE64(m[k], 8) >= 0)))
		}) &&
		vsForallKey(m, func(k1 string) bool {
			return vsForallKey(m, func(k2 string) bool {
				return !vsHas(m, k1) || !vsHas(m, k2) || k1 == k2 || vsDisjoint(m[k1], m[k2])
			})
		})
}

// ---- Volatile.Has == active(view)
//@ skip (*github.com/emitter-io/emitter/internal/event/crdt.Volatile).Has pre=pre_Has post=post_Has
func pre_Has(s *Volatile) bool { return s != nil && s.lock != nil && specWF(s.data, true) }
func post_Has(s *Volatile, item string, res0 bool) bool {
	return res0 == (specAdd(s.data, item) != 0 && specAdd(s.data, item) >= specDel(s.data, item))
}

// ================= Volatile.Merge: join + delta (C04 / C13) =================
func vsOldM(f func() map[string]Value) map[string]Value { panic("ghost") }

func specMax(a, b int64) int64 {
	if a < b {
		return b
	}
	return a
}
func specDeltaT(mine, theirs int64) int64 {
	if mine < theirs {
		return theirs
	}
	return 0
}
func oldAdd(m map[string]Value, k string) int64 { return vsOldI(func() int64 { return specAdd(m, k) }) }
func oldDel(m map[string]Value, k string) int64 { return vsOldI(func() int64 { return specDel(m, k) }) }
func oldHas(m map[string]Value, k string) bool  { return vsOldB(func() bool { return vsHas(m, k) }) }

// no entry of a shares bytes with an entry of b
func specCross(a, b map[string]Value) bool {
	return vsForallKey(a, func(k1 string) bool {
		return vsForallKey(b, func(k2 string) bool {
			return !vsHas(a, k1) || !vsHas(b, k2) || vsDisjoint(a[k1], b[k2])
		})
	})
}

func specMergeRep(s, r *Volatile) bool {
	return s != nil && r != nil && s != r && s.data != nil && r.data != nil && !vsSameMap(s.data, r.data) &&
		specWF(s.data, true) && specWF(r.data, false) && specCross(s.data, r.data)
}

//@ verify (*github.com/emitter-io/emitter/internal/event/crdt.Volatile).Merge pre=pre_Merge post=post_Merge
//@ loop (*github.com/emitter-io/emitter/internal/event/crdt.Volatile).Merge 0 inv inv_Merge_0
func pre_Merge(s *Volatile, other Map) bool {
	r := other.(*Volatile)
	return specMergeRep(s, r) && s.lock != nil && r.lock != nil
}

func specMergedKey(S, R map[string]Value, k string) bool {
	return oldHas(R, k) &&
		specAdd(S, k) == specMax(oldAdd(S, k), oldAdd(R, k)) &&
		specDel(S, k) == specMax(oldDel(S, k), oldDel(R, k)) &&
		vsHas(R, k) == (oldAdd(S, k) < oldAdd(R, k) || oldDel(S, k) < oldDel(R, k)) &&
		(!vsHas(R, k) || (specAdd(R, k) == specDeltaT(oldAdd(S, k), oldAdd(R, k)) && specDel(R, k) == specDeltaT(oldDel(S, k), oldDel(R, k))))
}

func specUntouchedKey(S, R map[string]Value, k string) bool {
	return vsHas(R, k) == oldHas(R, k) && specAdd(R, k) == oldAdd(R, k) && specDel(R, k) == oldDel(R, k) &&
		vsHas(S, k) == oldHas(S, k) && specAdd(S, k) == oldAdd(S, k) && specDel(S, k) == oldDel(S, k)
}

func inv_Merge_0(s *Volatile, r *Volatile) bool {
	return specMergeRep(s, r) &&
		vsSameMap(s.data, vsOldM(func() map[string]Value { return s.data })) &&
		vsSameMap(r.data, vsOldM(func() map[string]Value { return r.data })) &&
		vsForallKey(r.data, func(k string) bool {
			if vsRanged(r.data, k) {
				return specMergedKey(s.data, r.data, k)
			}
			return specUntouchedKey(s.data, r.data, k)
		})
}

func post_Merge(s *Volatile, other Map) bool {
	r := other.(*Volatile)
	S, R := s.data, r.data
	return vsForallKey(R, func(k string) bool {
		if oldHas(R, k) {
			return specMergedKey(S, R, k)
		}
		return specUntouchedKey(S, R, k)
	})
}
