package main

import (
	"fmt"

	"golang.org/x/tools/go/ssa"
)

// structuralDeferFirst decides a CFG fact that needs no solver: the function's first effectful instruction
// registers `callee` as a deferred call on its receiver, and every way of leaving the function runs the deferred
// calls (go/ssa emits RunDefers before each Return and in the recover block; a panic unwinds through the same
// defers by the language definition). Used for "every way a connection ends reaches Close exactly once".
func structuralDeferFirst(fn *ssa.Function, calleeName string) (bool, string) {
	if len(fn.Blocks) == 0 {
		return false, "no body"
	}
	seenDefer := false
	for _, in := range fn.Blocks[0].Instrs {
		switch x := in.(type) {
		case *ssa.Alloc, *ssa.Store, *ssa.DebugRef, *ssa.UnOp, *ssa.FieldAddr:
			continue
		case *ssa.Call:
			if b, ok := x.Call.Value.(*ssa.Builtin); ok && b.Name() == "ssa:deferstack" {
				continue
			}
			return false, fmt.Sprintf("a call (%s) precedes the defer", x.Call.Value.Name())
		case *ssa.Defer:
			callee := x.Call.StaticCallee()
			if callee == nil || shortName(callee.String()) != calleeName {
				return false, "the first defer is not " + calleeName
			}
			if len(x.Call.Args) == 0 || x.Call.Args[0] != ssa.Value(fn.Params[0]) {
				// the receiver may be re-loaded from the parameter's local copy
				if u, ok := x.Call.Args[0].(*ssa.UnOp); !ok || !isParamCopy(fn, u) {
					return false, "the deferred call is not on the receiver"
				}
			}
			seenDefer = true
		default:
			if !seenDefer {
				return false, fmt.Sprintf("instruction %T precedes the defer", in)
			}
		}
		if seenDefer {
			break
		}
	}
	if !seenDefer {
		return false, "no defer in the entry block"
	}
	// every Return is immediately preceded by RunDefers; no other defer of the same callee exists
	n := 0
	for _, b := range fn.Blocks {
		for i, in := range b.Instrs {
			switch x := in.(type) {
			case *ssa.Return:
				if b == fn.Recover {
					continue // reached only after a panic has already run the deferred calls
				}
				ok := false
				for j := i - 1; j >= 0; j-- {
					if _, isRD := b.Instrs[j].(*ssa.RunDefers); isRD {
						ok = true
						break
					}
					if _, isLoad := b.Instrs[j].(*ssa.UnOp); !isLoad {
						break // only loads of the named results may sit between RunDefers and the return
					}
				}
				if !ok {
					return false, "a return without RunDefers"
				}
			case *ssa.Defer:
				if c := x.Call.StaticCallee(); c != nil && shortName(c.String()) == calleeName {
					n++
				}
			case *ssa.Go:
				_ = x
			}
		}
	}
	if n != 1 {
		return false, fmt.Sprintf("%s is deferred %d times", calleeName, n)
	}
	return true, ""
}

func isParamCopy(fn *ssa.Function, u *ssa.UnOp) bool {
	a, ok := u.X.(*ssa.Alloc)
	if !ok {
		return false
	}
	for _, r := range *a.Referrers() {
		if st, ok := r.(*ssa.Store); ok && st.Addr == a {
			if st.Val != ssa.Value(fn.Params[0]) {
				return false
			}
		}
	}
	return true
}

// structuralBlockingSend decides, on the CFG alone (channels are outside the symbolic executor's subset): the
// function performs exactly one channel send, it is an unconditional blocking send (no select anywhere in the
// function, so there is no default branch that could drop the value), the block holding it dominates every
// return, and the function starts no goroutine (the send happens on the caller's goroutine, before it returns).
func structuralBlockingSend(fn *ssa.Function) (bool, string) {
	if len(fn.Blocks) == 0 {
		return false, "no body"
	}
	var sendBlock *ssa.BasicBlock
	n := 0
	for _, b := range fn.Blocks {
		for _, in := range b.Instrs {
			switch in.(type) {
			case *ssa.Send:
				n++
				sendBlock = b
			case *ssa.Select:
				return false, "a select statement (a send that can be skipped)"
			case *ssa.Go:
				return false, "a goroutine is started"
			}
		}
	}
	if n != 1 {
		return false, fmt.Sprintf("%d channel sends", n)
	}
	for _, b := range fn.Blocks {
		if b == fn.Recover {
			continue
		}
		for _, in := range b.Instrs {
			if _, ok := in.(*ssa.Return); ok && !sendBlock.Dominates(b) {
				return false, "a return that is not preceded by the send"
			}
		}
	}
	return true, ""
}

// structuralNoGo: the function (not its callees) starts no goroutine and performs no channel operation.
func structuralNoGo(fn *ssa.Function) (bool, string) {
	for _, b := range fn.Blocks {
		for _, in := range b.Instrs {
			switch in.(type) {
			case *ssa.Go:
				return false, "a goroutine is started"
			case *ssa.Send, *ssa.Select:
				return false, "a channel operation"
			}
		}
	}
	return true, ""
}

// structuralRecovers: the function calls the builtin recover() in its OWN body (the language only stops a panic
// when the deferred function itself calls recover - one call level deeper it returns nil), in a block that
// dominates every return, i.e. on every path. Together with "the caller defers exactly this function first"
// (structural defer-first) this decides: a panic raised while serving a connection never leaves its goroutine.
func structuralRecovers(fn *ssa.Function) (bool, string) {
	if len(fn.Blocks) == 0 {
		return false, "no body"
	}
	var rb []*ssa.BasicBlock
	for _, b := range fn.Blocks {
		for _, in := range b.Instrs {
			if c, ok := in.(*ssa.Call); ok {
				if bi, ok := c.Call.Value.(*ssa.Builtin); ok && bi.Name() == "recover" {
					rb = append(rb, b)
				}
			}
		}
	}
	if len(rb) == 0 {
		return false, "no direct call of recover() in the function body"
	}
	for _, b := range fn.Blocks {
		if b == fn.Recover {
			continue
		}
		for _, in := range b.Instrs {
			if _, ok := in.(*ssa.Return); ok {
				dom := false
				for _, r := range rb {
					if r.Dominates(b) {
						dom = true
					}
				}
				if !dom {
					return false, "a path to a return that does not call recover()"
				}
			}
		}
	}
	return true, ""
}
