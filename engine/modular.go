package main

import (
	"os"
	"fmt"
	"go/types"
	"math/big"
	"strings"

	"golang.org/x/tools/go/ssa"
)

// Contract is the callee-side view of a `//@ verify F ... modular [modifies=a,b]` directive: callers are checked
// against it (precondition obligation, havoc of the modifies set, postcondition assumed) and never see the body.
type Contract struct {
	D        *Directive
	Fn       *ssa.Function
	Modifies []string     // parameter names whose referents the callee may write
	SpecPkg  *ssa.Package // where the pre/post functions live (the package of the contract file)
}

func (c *Contract) spec(name string) *ssa.Function {
	p := c.SpecPkg
	if p == nil {
		p = c.Fn.Pkg
	}
	f := p.Func(name)
	if f == nil {
		panic("spec function not found: " + name)
	}
	return f
}

// fnParamIndex finds a parameter by name, also for functions whose body was not built (names from the signature,
// receiver first).
func fnParamIndex(fn *ssa.Function, name string) int {
	if len(fn.Params) > 0 {
		return paramIndex(fn, name)
	}
	i := 0
	if r := fn.Signature.Recv(); r != nil {
		if r.Name() == name {
			return 0
		}
		i = 1
	}
	ps := fn.Signature.Params()
	for k := 0; k < ps.Len(); k++ {
		if ps.At(k).Name() == name {
			return i + k
		}
	}
	panic("contract names " + name + ", which is not a parameter of " + shortName(fn.String()))
}

func hasArg(d *Directive, a string) bool {
	for _, x := range d.Args {
		if x == a {
			return true
		}
	}
	return false
}

// callModular applies the contract of fn at a call site. Returns the result value (nil for no results).
func (e *Engine) callModular(s *State, c *Contract, args []Val) Val {
	fn := c.Fn
	short := shortName(fn.String())
	site := e.site(e.curInstr)
	if e.modularUsed == nil {
		e.modularUsed = map[string]bool{}
	}
	e.modularUsed[short] = true
	bind := func(spec *ssa.Function, results []Val, olds map[string]Val) []Val {
		var pa []Val
		for _, pp := range spec.Params {
			nm := pp.Name()
			switch {
			case strings.HasPrefix(nm, "old_"):
				pa = append(pa, olds[nm[4:]])
			case strings.HasPrefix(nm, "res") && isDigits(nm[3:]) && results != nil:
				var i int
				fmt.Sscanf(nm, "res%d", &i)
				pa = append(pa, results[i])
			default:
				pa = append(pa, args[fnParamIndex(fn, nm)])
			}
		}
		return pa
	}
	// 1. the caller owes the precondition
	if c.D.Pre != "" {
		pre := c.spec(c.D.Pre)
		v := e.evalPure(s, pre, bind(pre, nil, nil), nil).(Term)
		e.oblig(s, "call.pre["+short+"]"+site, v)
	}
	// 2. snapshots for old_x, then havoc what the callee may modify
	olds := map[string]Val{}
	for _, pn := range c.D.Posts {
		for _, pp := range c.spec(pn).Params {
			if strings.HasPrefix(pp.Name(), "old_") {
				base := pp.Name()[4:]
				if _, done := olds[base]; !done {
					olds[base] = e.snapshot(s, args[fnParamIndex(fn, base)])
				}
			}
		}
	}
	for _, m := range c.Modifies {
		e.havocArg(s, args[fnParamIndex(fn, m)])
	}
	// 3. fresh results, constrained only by the postcondition
	rs := fn.Signature.Results()
	var results []Val
	for i := 0; i < rs.Len(); i++ {
		if hasArg(c.D, "fresh") {
			results = append(results, e.symbolicFresh(s, "r_"+fn.Name(), rs.At(i).Type(), 0))
		} else {
			results = append(results, e.symbolic(s, "r_"+fn.Name(), rs.At(i).Type()))
		}
	}
	if c.D.Kind == "assume" {
		if e.stubsUsed == nil {
			e.stubsUsed = map[string]bool{}
		}
		e.stubsUsed[short+" (contract assumed, not proved: "+strings.Join(c.D.Posts, ",")+")"] = true
	}
	for _, pn := range c.D.Posts {
		post := c.spec(pn)
		v := e.evalPure(s, post, bind(post, results, olds), nil).(Term)
		e.assume(s, v)
	}
	switch len(results) {
	case 0:
		return nil
	case 1:
		return results[0]
	}
	return TupleV(results)
}

// havocArg forgets the contents of what a pointer / slice argument refers to.
func (e *Engine) havocArg(s *State, v Val) {
	switch x := v.(type) {
	case PtrV:
		if x.Nil {
			return
		}
		switch x.Kind {
		case "hcell":
			e.storeHeapVal(s, "C", x.Ref, x.Elem, e.symbolic(s, "hv", x.Elem))
		case "struct":
			if len(x.Path) > 0 {
				panic("modifies of an interior pointer")
			}
			for i := 0; i < x.StT.NumFields(); i++ {
				nm, ft := e.fieldHeapName(x, i)
				if isSyncType(ft) && atomicValT(ft) == nil {
					continue
				}
				e.storeHeapVal(s, nm, x.Ref, ft, e.symbolic(s, "hv", ft))
			}
		default:
			panic("modifies of pointer kind " + x.Kind)
		}
	case SliceV:
		// only the window [off, off+len) may change
		x.Len, x.Off = s.res(x.Len), s.res(x.Off)
		if x.Len.C != nil && x.Len.C.Int64() <= 32 { // short window of known length: element-wise, no quantifier
			for i := int64(0); i < x.Len.C.Int64(); i++ {
				e.storeElem(s, x.Ref, iadd(x.Off, intT(i)), x.Elem, e.declare(s, "hv", elemSort(x.Elem)))
			}
			return
		}
		so := elemSort(x.Elem)
		nm := "M_" + sortTag(so)
		m := e.heapArr(s, nm, refArrSort(arrSort(so)))
		old := e.name(s, sel(m, x.Ref, arrSort(so)))
		na := e.declare(s, "hv", arrSort(so))
		j := "j!" + e.fresh("h")
		jt := Term{S: j, Sort: ISort()}
		in := and(ile(x.Off, jt), ilt(jt, iadd(x.Off, x.Len)))
		e.axiom(s, na, Term{S: fmt.Sprintf("(forall ((%s %s)) (or %s (= (select %s %s) (select %s %s))))", j, ISort(), in.S, na.S, j, old.S, j), Sort: "Bool"})
		e.hset(s, nm, e.name(s, sto(m, x.Ref, na)), HWrite{Ref: x.Ref, Val: na, Whole: true})
	default:
		panic(fmt.Sprintf("modifies of a %T argument", v))
	}
}

func isSyncType(t types.Type) bool {
	n, ok := t.(*types.Named)
	return ok && n.Obj().Pkg() != nil && (n.Obj().Pkg().Path() == "sync" || n.Obj().Pkg().Path() == "sync/atomic")
}

// frameCheck: a function whose contract is used modularly must not write outside its modifies set. Every write
// in the final write logs must hit an object allocated during the call or the referent of a modifies parameter.
func (e *Engine) frameCheck(fs *State, c *Contract, args []Val) {
	var allowed []Term
	for _, m := range c.Modifies {
		switch x := args[paramIndex(c.Fn, m)].(type) {
		case PtrV:
			if !x.Nil {
				allowed = append(allowed, x.Ref)
			}
		case SliceV:
			allowed = append(allowed, x.Ref)
		}
	}
	if fs.epoch != 0 {
		e.oblig(fs, "frame", boolT(false)) // a cut loop havocked the heap: the frame cannot be established
		return
	}
	seen := map[string]bool{}
	for nm, l := range fs.hlog {
		if strings.HasPrefix(nm, "MP_") && false {
			continue
		}
		for _, w := range l.W {
			if w.Ref.C != nil || strings.HasPrefix(w.Ref.S, "ref!") || seen[w.Ref.S] {
				continue // fresh object (allocated during the call) or a global at a fixed identity
			}
			seen[w.Ref.S] = true
			ok := not(sel(Term{S: "alloc!0", Sort: "(Array Int Bool)"}, w.Ref, "Bool"))
			for _, a := range allowed {
				if sameTerm(a, w.Ref) {
					ok = boolT(true)
					break
				}
				ok = or(ok, eq(a, w.Ref))
			}
			e.oblig(fs, "frame["+nm+"]", ok)
		}
	}
}

// unknownCall models a call whose implementation is not known (interface method on a value of unknown dynamic
// type, or an external function under the default rule). A parameterless method with one scalar result is treated
// as a pure getter: an uninterpreted function of the receiver's identity. Anything else is an effect: it is
// appended to the ghost trace with frozen copies of its slice arguments, and its results are unconstrained.
// Assumption (listed in every evidence file): such a callee does not write to objects the verified code reads later.
func (e *Engine) unknownCall(s *State, name string, sig *types.Signature, recv Val, args []Val) Val {
	rs := sig.Results()
	if iv, ok := recv.(IfaceV); ok && sig.Params().Len() == 0 && rs.Len() == 1 && e.ifaceContract(name) == nil {
		if so, ok := sortOf(rs.At(0).Type()); ok {
			if _, isPtr := rs.At(0).Type().Underlying().(*types.Pointer); !isPtr {
				// keyed by the METHOD name (and result sort) only: the same dynamic object has one method of that name,
				// whichever interface type the call goes through (service.Conn.ID and message.Subscriber.ID of one
				// connection are the same call)
				mname := name
				if i := strings.LastIndex(mname, "."); i >= 0 {
					mname = mname[i+1:]
				}
				uf := "ufm_" + sanitize(mname) + "_" + sortTag(so)
				s.defs = append(s.defs, fmt.Sprintf("(declare-fun %s (Ref) %s)", uf, so))
				t := e.name(s, app(uf, so, e.ifaceRef(iv)))
				if so == "Str" {
					return StrV{T: t}
				}
				return t
			}
		}
	}
	if e.stubsUsed == nil {
		e.stubsUsed = map[string]bool{}
	}
	e.stubsUsed[name+" (unknown implementation: effect recorded in the ghost trace, results unconstrained)"] = true
	ev := TraceEv{Name: name}
	if recv != nil {
		ev.Args = append(ev.Args, recv)
	}
	for _, a := range args {
		if _, isSlice := a.(SliceV); isSlice {
			ev.Args = append(ev.Args, e.snapshot(s, a)) // byte arguments are frozen as they were at the call
		} else {
			ev.Args = append(ev.Args, a)
		}
	}
	if c := e.ifaceContract(name); c != nil && s.spec == 0 {
		off := 0
		if recv == nil && sig.Recv() != nil {
			off = 1
		}
		for _, mname := range strings.Split(argVal(c.D, "modifies"), ",") {
			for k := 0; k < sig.Params().Len() && mname != ""; k++ {
				if sig.Params().At(k).Name() == mname {
					switch v := args[off+k].(type) {
					case SliceV:
						e.havocArg(s, v)
					case PtrV:
						e.havocPtr(s, v)
					case IfaceV: // an interface{} parameter holding a pointer (binary.Unmarshal(b, &x)): what it points to
						if pv, ok := v.V.(PtrV); ok && !pv.Nil {
							e.havocPtr(s, pv)
						}
					}
				}
			}
		}
	}
	var results []Val
	freshRes := false
	if c := e.ifaceContract(name); c != nil && hasArg(c.D, "fresh") {
		freshRes = true // the assumed contract says the results are freshly allocated objects (a copy, a new buffer)
	}
	for i := 0; i < rs.Len(); i++ {
		if freshRes {
			results = append(results, e.symbolicFresh(s, "r_"+sanitize(name), rs.At(i).Type(), 0))
		} else {
			results = append(results, e.symbolic(s, "r_"+sanitize(name), rs.At(i).Type()))
		}
	}
	ev.Results = results
	if s.spec == 0 {
		s.trace = append(append([]TraceEv(nil), s.trace...), ev)
	}
	// an assumed contract on the interface method (or external function) constrains the otherwise free results
	if c := e.ifaceContract(name); c != nil && s.spec == 0 {
		site := e.site(e.curInstr)
		bind := func(spec *ssa.Function) []Val {
			var pa []Val
			for _, pp := range spec.Params {
				nm := pp.Name()
				switch {
				case nm == "recv" && recv != nil:
					pa = append(pa, recv)
				case strings.HasPrefix(nm, "old_"): // the (frozen) argument as it was at the call
					base, found := nm[4:], false
					off, aoff := 0, 0
					if recv != nil {
						aoff = 1
					} else if sig.Recv() != nil {
						off = 1
					}
					for k := 0; k < sig.Params().Len(); k++ {
						if sig.Params().At(k).Name() == base {
							pa = append(pa, ev.Args[aoff+off+k])
							found = true
						}
					}
					if !found {
						panic("interface contract names " + nm + ", which is not a parameter of " + name)
					}
				case strings.HasPrefix(nm, "res") && isDigits(nm[3:]):
					var i int
					fmt.Sscanf(nm, "res%d", &i)
					pa = append(pa, results[i])
				default:
					found := false
					off := 0
					if recv == nil && sig.Recv() != nil {
						off = 1 // a concrete method: args[0] is the receiver
						if sig.Recv().Name() == nm {
							pa = append(pa, args[0])
							found = true
						}
					}
					for k := 0; k < sig.Params().Len() && !found; k++ {
						if sig.Params().At(k).Name() == nm {
							pa = append(pa, args[off+k])
							found = true
						}
					}
					if !found {
						panic("interface contract names " + nm + ", which is not a parameter of " + name)
					}
				}
			}
			return pa
		}
		if c.D.Pre != "" { // what the dependency requires of its caller (read off its source): the caller owes it
			pre := c.spec(c.D.Pre)
			results = nil
			v := e.evalPure(s, pre, bind(pre), nil).(Term)
			results = ev.Results
			e.oblig(s, "call.pre["+shortName(name)+"]"+site, v)
		}
		for _, pn := range c.D.Posts {
			post := c.spec(pn)
			e.assume(s, e.evalPure(s, post, bind(post), nil).(Term))
		}
		e.stubsUsed[shortName(name)+" (interface contract assumed: "+strings.Join(c.D.Posts, ",")+")"] = true
	}
	switch len(results) {
	case 0:
		return nil
	case 1:
		return results[0]
	}
	return TupleV(results)
}

func sanitize(n string) string {
	return strings.NewReplacer("(", "", ")", "", "*", "", ".", "_", "/", "_", "-", "_", " ", "", ":", "_", "$", "_", "[", "_", "]", "_", ",", "_").Replace(shortName(n))
}

// traceIntrinsic evaluates the verifspec.Trace* helpers against the ghost trace of the current path.
// curResultType is the result type of the trace helper being evaluated (for the "no such event" zero value).
var curResultType types.Type

func (e *Engine) traceIntrinsic(s *State, name string, args []Val) (Val, bool) {
	e.heapTouch++ // what a trace helper returns depends on the path: a spec function that asks must not be memoised
	idx := func(v Val) int {
		t := s.res(v.(Term))
		if t.C == nil {
			panic("trace index must be a constant")
		}
		return int(t.C.Int64())
	}
	switch name {
	case "vsTraceLen":
		return intT(int64(len(s.trace))), true
	case "vsTraceFind", "vsTraceCount", "vsTraceFindNth": // position / number of events whose name ends in the given suffix
		nm := args[0].(StrV)
		if nm.Const == nil {
			panic("TraceFind needs a constant name")
		}
		nth := 0
		if name == "vsTraceFindNth" {
			nth = idx(args[1])
		}
		cnt, pos := 0, -1
		for i, ev := range s.trace {
			if strings.HasSuffix(ev.Name, *nm.Const) {
				if cnt == nth && pos < 0 {
					pos = i
				}
				cnt++
			}
		}
		if name == "vsTraceCount" {
			return intT(int64(cnt)), true
		}
		return intT(int64(pos)), true
	case "vsTraceIs":
		i := idx(args[0])
		nm := args[1].(StrV)
		if nm.Const == nil {
			panic("TraceIs needs a constant name")
		}
		return boolT(i >= 0 && i < len(s.trace) && strings.HasSuffix(s.trace[i].Name, *nm.Const)), true
	case "vsTraceArg":
		i, k := idx(args[0]), idx(args[1])
		if i < 0 || i >= len(s.trace) || k < 0 || k >= len(s.trace[i].Args) {
			return e.zero(s, curResultType), true
		}
		if fv, ok := s.trace[i].Args[k].(FuncV); ok && os.Getenv("GOVC_DEBUGFN") != "" {
			for _, b := range fv.Bind {
				if p, ok := b.(PtrV); ok {
					fmt.Printf("DEBUGFN bind %+v -> %+v\n", p, e.load(s, p, p.Elem))
				}
			}
		}
		if iv, ok := s.trace[i].Args[k].(IfaceV); ok && curResultType != nil {
			// an interface{} parameter asked for at the concrete type that was passed (TraceArg[*T] of Unmarshal(b, &x))
			if _, wantIface := curResultType.Underlying().(*types.Interface); !wantIface {
				if iv.Dyn != nil && types.Identical(iv.Dyn, curResultType) {
					return iv.V, true
				}
				return e.zero(s, curResultType), true
			}
		}
		return s.trace[i].Args[k], true
	case "vsTraceRet":
		i, k := idx(args[0]), idx(args[1])
		if i < 0 || i >= len(s.trace) || k < 0 || k >= len(s.trace[i].Results) {
			return e.zero(s, curResultType), true
		}
		return s.trace[i].Results[k], true
	case "vsTraceBytes", "vsTraceInt", "vsTraceArg8", "vsTraceArg32", "vsTraceArgStr":
		i, k := idx(args[0]), idx(args[1])
		if i < 0 || i >= len(s.trace) || k < 0 || k >= len(s.trace[i].Args) {
			// no such event on this path: the clause must have guarded this with TraceLen/TraceIs
			return e.zero(s, curResultType), true
		}
		return s.trace[i].Args[k], true
	case "vsTraceRetInt", "vsTraceRetErr", "vsTraceRetInt64", "vsTraceRetUint32", "vsTraceRetBytes", "vsTraceRetBool":
		i, k := idx(args[0]), idx(args[1])
		if i < 0 || i >= len(s.trace) || k < 0 || k >= len(s.trace[i].Results) {
			switch name {
			case "vsTraceRetErr":
				return IfaceV{IsNil: boolT(true)}, true
			case "vsTraceRetBytes":
				return SliceV{refT(0), intT(0), intT(0), intT(0), types.Typ[types.Uint8]}, true
			case "vsTraceRetBool":
				return boolT(false), true
			case "vsTraceRetUint32":
				return bvT(big.NewInt(0), 32), true
			}
			return intT(0), true
		}
		return s.trace[i].Results[k], true
	}
	return nil, false
}

// symbolicFresh builds an unconstrained value of type t all of whose references are freshly allocated objects
// (used for the results of `assume ... fresh` contracts such as a buffer taken from a pool).
func (e *Engine) symbolicFresh(s *State, name string, t types.Type, depth int) Val {
	switch u := t.Underlying().(type) {
	case *types.Pointer:
		if depth > 3 {
			return PtrV{Nil: true}
		}
		r := e.newRef(s)
		p := e.ptrFromRef(r, u.Elem())
		e.store(s, p, e.symbolicFresh(s, name, u.Elem(), depth+1))
		return p
	case *types.Slice:
		v := e.symbolic(s, name, t).(SliceV)
		v.Ref = e.newRef(s)
		v.Off = intT(0)
		return v
	case *types.Struct:
		sv := StructV{T: u}
		for i := 0; i < u.NumFields(); i++ {
			sv.F = append(sv.F, e.symbolicFresh(s, name+"."+u.Field(i).Name(), u.Field(i).Type(), depth+1))
		}
		return sv
	}
	return e.symbolic(s, name, t)
}

// neededOlds lists the parameters that some postcondition mentions as old_<param>.
func neededOlds(fn *ssa.Function, posts []string) map[string]bool {
	need := map[string]bool{}
	for _, pn := range posts {
		if post := fn.Pkg.Func(pn); post != nil {
			for _, pp := range post.Params {
				if strings.HasPrefix(pp.Name(), "old_") {
					need[pp.Name()[4:]] = true
				}
			}
		}
	}
	return need
}

// ifaceContract picks the assumed contract for a callee that applies to the target being verified: an assumption
// written in a package's contract file speaks for the functions of that package only (another package may keep
// the same callee under a different - or no - assumption).
func (e *Engine) ifaceContract(name string) *Contract {
	cs := e.ifaceAll[name]
	if len(cs) == 0 || e.curT == nil {
		return nil
	}
	for _, c := range cs {
		if c.SpecPkg != nil && c.SpecPkg == e.curT.Fn.Pkg {
			// `for=<target>`: the assumption is made only while that target (function name or as= label) is verified
			if f := argVal(c.D, "for"); f != "" && f != e.curT.Fn.Name() && f != argVal(e.curT.D, "as") {
				continue
			}
			return c
		}
	}
	return nil
}
