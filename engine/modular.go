package main

import (
	"fmt"
	"go/types"
	"strings"

	"golang.org/x/tools/go/ssa"
)

// Contract is the callee-side view of a `//@ verify F ... modular [modifies=a,b]` directive: callers are checked
// against it (precondition obligation, havoc of the modifies set, postcondition assumed) and never see the body.
type Contract struct {
	D        *Directive
	Fn       *ssa.Function
	Modifies []string // parameter names whose referents the callee may write
}

func hasArg(d *Directive, a string) bool {
	for _, x := range d.Args {
		if x == a {
			return true
		}
	}
	return false
}

// callModular applies the contract of fn at a call site. Returns the result value (nil for no results).
func (e *Engine) callModular(s *State, c *Contract, args []Val) Val {
	fn := c.Fn
	short := shortName(fn.String())
	site := e.site(e.curInstr)
	if e.modularUsed == nil {
		e.modularUsed = map[string]bool{}
	}
	e.modularUsed[short] = true
	bind := func(spec *ssa.Function, results []Val, olds map[string]Val) []Val {
		var pa []Val
		for _, pp := range spec.Params {
			nm := pp.Name()
			switch {
			case strings.HasPrefix(nm, "old_"):
				pa = append(pa, olds[nm[4:]])
			case strings.HasPrefix(nm, "res") && isDigits(nm[3:]) && results != nil:
				var i int
				fmt.Sscanf(nm, "res%d", &i)
				pa = append(pa, results[i])
			default:
				pa = append(pa, args[paramIndex(fn, nm)])
			}
		}
		return pa
	}
	// 1. the caller owes the precondition
	if c.D.Pre != "" {
		pre := fn.Pkg.Func(c.D.Pre)
		if pre == nil {
			panic("spec function not found: " + c.D.Pre)
		}
		v := e.evalPure(s, pre, bind(pre, nil, nil), nil).(Term)
		e.oblig(s, "call.pre["+short+"]"+site, v)
	}
	// 2. snapshots for old_x, then havoc what the callee may modify
	olds := map[string]Val{}
	for i, p := range fn.Params {
		olds[p.Name()] = e.snapshot(s, args[i])
	}
	for _, m := range c.Modifies {
		e.havocArg(s, args[paramIndex(fn, m)])
	}
	// 3. fresh results, constrained only by the postcondition
	rs := fn.Signature.Results()
	var results []Val
	for i := 0; i < rs.Len(); i++ {
		results = append(results, e.symbolic(s, "r_"+fn.Name(), rs.At(i).Type()))
	}
	for _, pn := range c.D.Posts {
		post := fn.Pkg.Func(pn)
		if post == nil {
			panic("spec function not found: " + pn)
		}
		v := e.evalPure(s, post, bind(post, results, olds), nil).(Term)
		e.assume(s, v)
	}
	switch len(results) {
	case 0:
		return nil
	case 1:
		return results[0]
	}
	return TupleV(results)
}

// havocArg forgets the contents of what a pointer / slice argument refers to.
func (e *Engine) havocArg(s *State, v Val) {
	switch x := v.(type) {
	case PtrV:
		if x.Nil {
			return
		}
		switch x.Kind {
		case "hcell":
			e.storeHeapVal(s, "C", x.Ref, x.Elem, e.symbolic(s, "hv", x.Elem))
		case "struct":
			if len(x.Path) > 0 {
				panic("modifies of an interior pointer")
			}
			for i := 0; i < x.StT.NumFields(); i++ {
				nm, ft := e.fieldHeapName(x, i)
				if isSyncType(ft) {
					continue
				}
				e.storeHeapVal(s, nm, x.Ref, ft, e.symbolic(s, "hv", ft))
			}
		default:
			panic("modifies of pointer kind " + x.Kind)
		}
	case SliceV:
		// only the window [off, off+len) may change
		so := elemSort(x.Elem)
		nm := "M_" + sortTag(so)
		m := e.heapArr(s, nm, refArrSort(arrSort(so)))
		old := e.name(s, sel(m, x.Ref, arrSort(so)))
		na := e.declare(s, "hv", arrSort(so))
		j := "j!" + e.fresh("h")
		jt := Term{S: j, Sort: ISort()}
		in := and(ile(x.Off, jt), ilt(jt, iadd(x.Off, x.Len)))
		e.assume(s, Term{S: fmt.Sprintf("(forall ((%s %s)) (or %s (= (select %s %s) (select %s %s))))", j, ISort(), in.S, na.S, j, old.S, j), Sort: "Bool"})
		e.hset(s, nm, e.name(s, sto(m, x.Ref, na)), HWrite{Ref: x.Ref, Val: na, Whole: true})
	default:
		panic(fmt.Sprintf("modifies of a %T argument", v))
	}
}

func isSyncType(t types.Type) bool {
	n, ok := t.(*types.Named)
	return ok && n.Obj().Pkg() != nil && (n.Obj().Pkg().Path() == "sync" || n.Obj().Pkg().Path() == "sync/atomic")
}

// frameCheck: a function whose contract is used modularly must not write outside its modifies set. Every write
// in the final write logs must hit an object allocated during the call or the referent of a modifies parameter.
func (e *Engine) frameCheck(fs *State, c *Contract, args []Val) {
	var allowed []Term
	for _, m := range c.Modifies {
		switch x := args[paramIndex(c.Fn, m)].(type) {
		case PtrV:
			if !x.Nil {
				allowed = append(allowed, x.Ref)
			}
		case SliceV:
			allowed = append(allowed, x.Ref)
		}
	}
	if fs.epoch != 0 {
		e.oblig(fs, "frame", boolT(false)) // a cut loop havocked the heap: the frame cannot be established
		return
	}
	seen := map[string]bool{}
	for nm, l := range fs.hlog {
		if strings.HasPrefix(nm, "MP_") && false {
			continue
		}
		for _, w := range l.W {
			if w.Ref.C != nil || strings.HasPrefix(w.Ref.S, "ref!") || seen[w.Ref.S] {
				continue // fresh object (allocated during the call) or a global at a fixed identity
			}
			seen[w.Ref.S] = true
			ok := not(sel(Term{S: "alloc!0", Sort: "(Array Int Bool)"}, w.Ref, "Bool"))
			for _, a := range allowed {
				if sameTerm(a, w.Ref) {
					ok = boolT(true)
					break
				}
				ok = or(ok, eq(a, w.Ref))
			}
			e.oblig(fs, "frame["+nm+"]", ok)
		}
	}
}
