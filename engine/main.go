package main

import (
	"math/big"
	"bufio"
	"flag"
	"fmt"
	"go/types"
	"os"
	"os/exec"
	"path/filepath"
	"sort"
	"strings"
	"sync"
	"time"

	"golang.org/x/tools/go/packages"
	"golang.org/x/tools/go/ssa"
	"golang.org/x/tools/go/ssa/ssautil"
)

const mode = packages.NeedName | packages.NeedFiles | packages.NeedCompiledGoFiles | packages.NeedImports | packages.NeedTypes | packages.NeedSyntax | packages.NeedTypesInfo | packages.NeedTypesSizes | packages.NeedDeps | packages.NeedModule

type Target struct {
	Fn    string
	Pre   string
	Posts []string
	Lemma bool
}

func main() {
	repo := flag.String("repo", "/repo", "repo root")
	specs := flag.String("specs", "", "comma list of relpkgdir=specfile")
	out := flag.String("out", "/tmp/spike/out", "output dir")
	tmo := flag.Int("timeout", 20, "solver timeout s")
	flag.BoolVar(&intBV, "intbv", false, "model Go int as BV64")
	prune := flag.Bool("prune", false, "check feasibility at forks")
	workers := flag.Int("workers", 14, "parallel exploration workers (with -prune)")
	flag.Parse()
	overlay := map[string][]byte{}
	var pats []string
	var specFiles []string
	for _, kv := range strings.Split(*specs, ",") {
		p := strings.SplitN(kv, "=", 2)
		b, err := os.ReadFile(p[1])
		if err != nil {
			panic(err)
		}
		overlay[filepath.Join(*repo, p[0], "zz_spec_verif.go")] = b
		pats = append(pats, "./"+p[0])
		specFiles = append(specFiles, p[1])
	}
	pats = append(pats, "encoding/binary", "math/bits")
	t0 := time.Now()
	cfg := &packages.Config{Mode: mode, Dir: *repo, BuildFlags: []string{"-tags=verif"}, Overlay: overlay}
	pkgs, err := packages.Load(cfg, pats...)
	if err != nil {
		panic(err)
	}
	if packages.PrintErrors(pkgs) > 0 {
		os.Exit(2)
	}
	prog, spkgs := ssautil.Packages(pkgs, ssa.NaiveForm|ssa.InstantiateGenerics)
	for _, p := range spkgs {
		p.Build()
	}
	fmt.Printf("loaded+built in %v\n", time.Since(t0))
	e := &Engine{prune: *prune, workers: *workers, prog: prog, pkgs: spkgs, loops: map[string]map[int]*LoopAnn{}, heapSorts: map[string]string{}}
	var targets []Target
	for _, sf := range specFiles {
		fh, _ := os.Open(sf)
		sc := bufio.NewScanner(fh)
		for sc.Scan() {
			l := strings.TrimSpace(sc.Text())
			if !strings.HasPrefix(l, "//@ ") {
				continue
			}
			fs := strings.Fields(l[4:])
			switch fs[0] {
			case "loop": // loop <fn> <ord> unroll N | inv a,b
				var ord int
				fmt.Sscanf(fs[2], "%d", &ord)
				if e.loops[fs[1]] == nil {
					e.loops[fs[1]] = map[int]*LoopAnn{}
				}
				a := &LoopAnn{}
				if fs[3] == "unroll" {
					fmt.Sscanf(fs[4], "%d", &a.Unroll)
				} else {
					a.Invs = strings.Split(fs[4], ",")
				}
				e.loops[fs[1]][ord] = a
			case "opaque":
				if e.opaque == nil {
					e.opaque = map[string]bool{}
				}
				e.opaque[fs[1]] = true
			case "verify", "lemma":
				t := Target{Fn: fs[1], Lemma: fs[0] == "lemma"}
				for _, kv := range fs[2:] {
					p := strings.SplitN(kv, "=", 2)
					switch p[0] {
					case "pre":
						t.Pre = p[1]
					case "post":
						t.Posts = strings.Split(p[1], ",")
					}
				}
				targets = append(targets, t)
			}
		}
		fh.Close()
	}
	all := allFuncs(prog, spkgs)
	for _, t := range targets {
		fn := all[t.Fn]
		if fn == nil {
			fmt.Println("TARGET NOT FOUND:", t.Fn)
			os.Exit(2)
		}
		e.verify(fn, t)
	}
	os.RemoveAll(*out)
	os.MkdirAll(*out, 0755)
	e.discharge(*out, *tmo)
}

func allFuncs(prog *ssa.Program, spkgs []*ssa.Package) map[string]*ssa.Function {
	res := map[string]*ssa.Function{}
	var add func(f *ssa.Function)
	add = func(f *ssa.Function) {
		if f == nil || res[f.String()] != nil {
			return
		}
		res[f.String()] = f
		for _, a := range f.AnonFuncs {
			add(a)
		}
	}
	for _, p := range spkgs {
		if p == nil {
			continue
		}
		for _, m := range p.Members {
			switch m := m.(type) {
			case *ssa.Function:
				add(m)
			case *ssa.Type:
				for _, T := range []types.Type{m.Type(), types.NewPointer(m.Type())} {
					ms := prog.MethodSets.MethodSet(T)
					for i := 0; i < ms.Len(); i++ {
						add(prog.MethodValue(ms.At(i)))
					}
				}
			}
		}
	}
	return res
}

func (e *Engine) verify(fn *ssa.Function, t Target) {
	e.curFn = fn.String()
	n0 := len(e.obs)
	p0 := e.paths
	defer func() {
		if r := recover(); r != nil {
			if os.Getenv("SPIKE_TRACE") != "" {
				panic(r)
			}
			fmt.Printf("UNSUPPORTED %s: %v\n", fn, r)
			e.errs = append(e.errs, fmt.Sprint(r))
		}
	}()
	s := &State{cellv: map[*Cell]Val{}, heap: map[string]Term{}}
	_ = s
	e.verify2(fn, t)
	fmt.Printf("%-70s paths=%d obligations=%d\n", fn.String(), e.paths-p0, len(e.obs)-n0)
}

func (e *Engine) verify2(fn *ssa.Function, t Target) {
	s := &State{cellv: map[*Cell]Val{}, heap: map[string]Term{}, subst: map[string]*big.Int{}}
	s.defs = append(s.defs, "(declare-const alloc!0 (Array Int Bool))")
	s.alloc = Term{S: "alloc!0", Sort: "(Array Int Bool)", C: nil}
	var args []Val
	for _, p := range fn.Params {
		args = append(args, e.symbolic(s, "p_"+p.Name(), p.Type()))
	}
	f := e.newFrame(s, fn, args, nil, nil, true)
	s.frames = []*Frame{f}
	for i, p := range fn.Params {
		f.entry[p.Name()] = e.snapshot(s, args[i])
	}
	if t.Pre != "" {
		pre := e.lookupFunc(fn.Pkg, t.Pre)
		var pa []Val
		for _, pp := range pre.Params {
			pa = append(pa, args[paramIndex(fn, pp.Name())])
		}
		v := e.evalPure(s, pre, pa, nil).(Term)
		e.assume(s, v)
		e.learnAll(s, v)
	}
	// entry heap snapshot for vsOld (shared, append-only while entry versions get materialised)
	s.entryHeap, s.entryLog = map[string]Term{}, map[string]*HLog{}
	for k, v := range s.heap {
		s.entryHeap[k] = v
		s.entryLog[k] = &HLog{Base: s.hlog[k].Base, W: append([]HWrite(nil), s.hlog[k].W...)}
	}
	fins := e.runPar(s, 1)
	for _, fs := range fins {
		if t.Lemma {
			e.oblig(fs, "lemma", fs.ret[0].(Term))
			continue
		}
		for k, pn := range t.Posts {
			post := e.lookupFunc(fn.Pkg, pn)
			var pa []Val
			for _, pp := range post.Params {
				nm := pp.Name()
				switch {
				case strings.HasPrefix(nm, "old_"):
					pa = append(pa, f.entry[nm[4:]])
				case strings.HasPrefix(nm, "res"):
					var i int
					fmt.Sscanf(nm, "res%d", &i)
					pa = append(pa, fs.ret[i])
				default:
					pa = append(pa, args[paramIndex(fn, nm)])
				}
			}
			e.oblig(fs, fmt.Sprintf("ensures[%d:%s]", k, pn), e.evalPure(fs, post, pa, nil).(Term))
		}
	}
}

func paramIndex(fn *ssa.Function, name string) int {
	for i, p := range fn.Params {
		if p.Name() == name {
			return i
		}
	}
	panic("no parameter " + name + " in " + fn.String())
}

// snapshot makes a frozen ghost copy of slice contents (for old_x).
func (e *Engine) snapshot(s *State, v Val) Val {
	sv, ok := v.(SliceV)
	if !ok {
		return v
	}
	so, ok2 := sortOf(sv.Elem)
	if !ok2 {
		return v
	}
	r := e.newRef(s)
	nm := "M_" + sortTag(so)
	m := e.heapArr(s, nm, refArrSort(arrSort(so)))
	inner := e.name(s, sel(m, sv.Ref, arrSort(so)))
	e.hset(s, nm, e.name(s, sto(m, r, inner)), HWrite{Ref: r, Val: inner, Whole: true})
	return SliceV{r, sv.Off, sv.Len, sv.Cap, sv.Elem}
}

func (e *Engine) learnAll(s *State, v Term) {
	// conjunctions were merged by evalPure; learn from individual pc entries instead
	for _, p := range s.pc {
		e.learn(s, p)
	}
}

func (e *Engine) discharge(out string, tmo int) {
	sort.SliceStable(e.obs, func(i, j int) bool { return e.obs[i].Name < e.obs[j].Name })
	var wg sync.WaitGroup
	sem := make(chan struct{}, 14)
	t0 := time.Now()
	for i, o := range e.obs {
		if o.Triv {
			continue
		}
		wg.Add(1)
		go func(i int, o *Oblig) {
			defer wg.Done()
			sem <- struct{}{}
			defer func() { <-sem }()
			fn := filepath.Join(out, fmt.Sprintf("ob%04d.smt2", i))
			os.WriteFile(fn, []byte(o.Script), 0644)
			type res struct {
				s, r string
				ms   int64
			}
			ch := make(chan res, 3)
			for _, sv := range [][]string{{"z3-new", "-T:" + fmt.Sprint(tmo), fn}, {"z3", "-T:" + fmt.Sprint(tmo), fn}, {"cvc5", "--tlimit=" + fmt.Sprint(tmo*1000), fn}} {
				go func(sv []string) {
					st := time.Now()
					b, _ := exec.Command(sv[0], sv[1:]...).CombinedOutput()
					l := strings.SplitN(strings.TrimSpace(string(b)), "\n", 2)[0]
					ch <- res{sv[0], l, time.Since(st).Milliseconds()}
				}(sv)
			}
			var last res
			for k := 0; k < 3; k++ {
				r := <-ch
				last = r
				if r.r == "unsat" || r.r == "sat" {
					break
				}
			}
			o.Result, o.Solver, o.Ms = last.r, last.s, last.ms
		}(i, o)
	}
	wg.Wait()
	triv, ok, bad := 0, 0, 0
	by := map[string]int{}
	for _, o := range e.obs {
		switch {
		case o.Triv:
			triv++
		case o.Result == "unsat":
			ok++
			by[o.Solver]++
		default:
			bad++
			fmt.Printf("FAILED %-90s %s (%s, %d ms)\n", o.Name, o.Result, o.Solver, o.Ms)
		}
	}
	fmt.Printf("feasibility checks: %d\n", e.fchecks)
	fmt.Printf("obligations: %d trivial(by folding) + %d discharged %v + %d failed; paths=%d; solver wall %v\n", triv, ok, by, bad, e.paths, time.Since(t0))
}
