package main

import (
	"encoding/json"
	"flag"
	"fmt"
	"go/types"
	"os"
	"path/filepath"
	"runtime/pprof"
	"sort"
	"strings"
	"time"

	"golang.org/x/tools/go/packages"
	"golang.org/x/tools/go/ssa"
	"golang.org/x/tools/go/ssa/ssautil"
)

const loadMode = packages.NeedName | packages.NeedFiles | packages.NeedCompiledGoFiles | packages.NeedImports | packages.NeedTypes | packages.NeedSyntax | packages.NeedTypesInfo | packages.NeedTypesSizes | packages.NeedDeps | packages.NeedModule

// PropCfg is one entry of /verif/props/props.json.
type PropCfg struct {
	Title       string   `json:"title"`
	Packages    []string `json:"packages"`     // package dirs relative to the repo root whose contract files take part
	TrustedBase []string `json:"trusted_base"` // assumptions specific to this property
	Residue     []string `json:"residue"`      // what the check does not decide
	Level       string   `json:"level"`        // evidence level ("proof" unless stated)
}

type Target struct {
	D     *Directive
	Fn    *ssa.Function
	Short string
}

var (
	repoDir  = "/repo"
	verifDir = "/verif"
	tier     = "quick"
	verbose  = false
)

func usage() {
	fmt.Fprintln(os.Stderr, "usage: govc check <property-id> [--tier quick|thorough] [--repo DIR] [--verif DIR] [-v]\n       govc replay <path>\n       govc selfcheck")
	os.Exit(2)
}

func main() {
	if len(os.Args) < 2 {
		usage()
	}
	if pf := os.Getenv("GOVC_PROF"); pf != "" {
		fh, _ := os.Create(pf)
		pprof.StartCPUProfile(fh)
		defer pprof.StopCPUProfile()
	}
	switch os.Args[1] {
	case "check":
		if len(os.Args) < 3 {
			usage()
		}
		id := os.Args[2]
		fs := flag.NewFlagSet("check", flag.ExitOnError)
		fs.StringVar(&tier, "tier", envOr("VERIF_TIER", "quick"), "quick|thorough")
		fs.StringVar(&repoDir, "repo", envOr("VERIF_REPO", "/repo"), "repository root")
		fs.StringVar(&verifDir, "verif", envOr("VERIF_DIR", "/verif"), "verif root")
		fs.BoolVar(&verbose, "v", false, "verbose")
		only := fs.String("only", "", "only targets whose name contains this text (debugging; evidence is not written)")
		noEv := fs.Bool("no-evidence", false, "do not write the evidence file")
		fs.Parse(os.Args[3:])
		code := runCheck(id, *only, *noEv)
		pprof.StopCPUProfile()
		os.Exit(code)
	case "replay":
		if len(os.Args) < 3 {
			usage()
		}
		os.Exit(runReplay(os.Args[2]))
	default:
		usage()
	}
}

func envOr(k, d string) string {
	if v := os.Getenv(k); v != "" {
		return v
	}
	return d
}

var undecidedTargets []string

func die(code int, id, format string, a ...interface{}) int {
	msg := fmt.Sprintf(format, a...)
	fmt.Printf("UNDECIDED property=%s reason=%s\n", id, strings.ReplaceAll(msg, "\n", " | "))
	return code
}

func loadProps() (map[string]*PropCfg, error) {
	b, err := os.ReadFile(filepath.Join(verifDir, "props", "props.json"))
	if err != nil {
		return nil, err
	}
	m := map[string]*PropCfg{}
	if err := json.Unmarshal(b, &m); err != nil {
		return nil, err
	}
	return m, nil
}

func allFuncs(prog *ssa.Program, spkgs []*ssa.Package) map[string]*ssa.Function {
	res := map[string]*ssa.Function{}
	var add func(f *ssa.Function)
	add = func(f *ssa.Function) {
		if f == nil || res[f.String()] != nil {
			return
		}
		res[f.String()] = f
		for _, a := range f.AnonFuncs {
			add(a)
		}
	}
	for _, p := range spkgs {
		if p == nil {
			continue
		}
		for _, m := range p.Members {
			switch m := m.(type) {
			case *ssa.Function:
				add(m)
			case *ssa.Type:
				for _, T := range []types.Type{m.Type(), types.NewPointer(m.Type())} {
					ms := prog.MethodSets.MethodSet(T)
					for i := 0; i < ms.Len(); i++ {
						add(prog.MethodValue(ms.At(i)))
					}
				}
			}
		}
	}
	return res
}

func runCheck(id, only string, noEv bool) int {
	t0 := time.Now()
	props, err := loadProps()
	if err != nil {
		return die(2, id, "cannot read props.json: %v", err)
	}
	cfg := props[id]
	if cfg == nil {
		return die(2, id, "unknown property")
	}
	// 1. contract files of the packages that take part
	var dirs []*Directive
	var pats []string
	var contractFiles []string
	for _, p := range cfg.Packages {
		ds, files, err := readDirectives(filepath.Join(repoDir, p))
		if err != nil {
			return die(2, id, "%v", err)
		}
		if len(files) == 0 {
			return die(2, id, "no contract file (zz_*_verif.go) in %s", p)
		}
		dirs = append(dirs, ds...)
		contractFiles = append(contractFiles, files...)
		pats = append(pats, "./"+p)
	}
	pats = append(pats, "encoding/binary", "math/bits")
	// 2. load the real code from the current working tree, with the verif tag
	pcfg := &packages.Config{Mode: loadMode, Dir: repoDir, BuildFlags: []string{"-tags=verif"}, Env: append(os.Environ(), "GOFLAGS=-mod=mod", "GOPROXY=off")}
	pkgs, err := packages.Load(pcfg, pats...)
	if err != nil {
		return die(2, id, "packages.Load: %v", err)
	}
	var perr []string
	packages.Visit(pkgs, nil, func(p *packages.Package) {
		for _, e := range p.Errors {
			perr = append(perr, e.Error())
		}
	})
	if len(perr) > 0 {
		if len(perr) > 5 {
			perr = perr[:5]
		}
		return die(2, id, "the tree (or a contract clause) does not type-check: %s", strings.Join(perr, "; "))
	}
	prog, spkgs := ssautil.AllPackages(pkgs, ssa.NaiveForm|ssa.InstantiateGenerics)
	for _, p := range spkgs {
		if p != nil {
			p.Build()
		}
	}
	tLoad := time.Since(t0)
	theProg = prog
	e := newEngine(prog, spkgs)
	all := allFuncs(prog, spkgs)
	e.all = all
	pkgPathOf := map[string]string{}
	ssaPkgOf := map[string]*ssa.Package{}
	for i, p := range pkgs {
		if spkgs[i] != nil && len(p.GoFiles) > 0 {
			pkgPathOf[filepath.Dir(p.GoFiles[0])] = spkgs[i].Pkg.Path()
			ssaPkgOf[filepath.Dir(p.GoFiles[0])] = spkgs[i]
		}
	}
	var targets, structTargets []*Target
	for _, d := range dirs {
		pp := pkgPathOf[d.PkgDir]
		switch d.Kind {
		case "loop":
			fn := resolveFn(all, pp, d.Fn)
			if fn == nil {
				return die(2, id, "%s:%d: function %s not found (renamed or removed?)", d.File, d.Line, d.Fn)
			}
			if len(d.Args) < 3 {
				return die(2, id, "%s:%d: malformed loop directive", d.File, d.Line)
			}
			var ord int
			fmt.Sscanf(d.Args[0], "%d", &ord)
			a := &LoopAnn{}
			switch d.Args[1] {
			case "unroll":
				fmt.Sscanf(d.Args[2], "%d", &a.Unroll)
			case "inv":
				a.Invs = strings.Split(d.Args[2], ",")
			default:
				return die(2, id, "%s:%d: malformed loop directive", d.File, d.Line)
			}
			for _, x := range d.Args[3:] {
				if strings.HasPrefix(x, "decreases=") {
					a.Decr = x[len("decreases="):]
				}
				if x == "bounded" {
					a.Bounded = true
				}
				if strings.HasPrefix(x, "modifies=") {
					a.Modifies = strings.Split(x[len("modifies="):], ",")
				}
			}
			if e.loops[fn.String()] == nil {
				e.loops[fn.String()] = map[int]*LoopAnn{}
			}
			a.For = argVal(d, "for")
			if a.For != "" {
				e.loopsFor[fn.String()+"|"+fmt.Sprint(ord)+"|"+a.For] = a
			} else {
				e.loops[fn.String()][ord] = a
			}
		case "opaque":
			fn := resolveFn(all, pp, d.Fn)
			if fn == nil {
				return die(2, id, "%s:%d: function %s not found", d.File, d.Line, d.Fn)
			}
			e.opaque[fn.String()] = true
		case "structural": // //@ structural <fn> defer-first=<callee> props=...
			if !hasProp(d, id) {
				continue
			}
			fn := resolveFn(all, pp, d.Fn)
			if fn == nil {
				return die(2, id, "%s:%d: function %s not found", d.File, d.Line, d.Fn)
			}
			var ok bool
			var why, oname string
			switch {
			case hasArg(d, "blocking-send"):
				ok, why = structuralBlockingSend(fn)
				oname = "#structural.blocking-send"
			case hasArg(d, "recovers"):
				ok, why = structuralRecovers(fn)
				oname = "#structural.recovers"
			case hasArg(d, "no-go"):
				ok, why = structuralNoGo(fn)
				oname = "#structural.no-go"
			default:
				ok, why = structuralDeferFirst(fn, argVal(d, "defer-first"))
				oname = "#structural.defer-first[" + argVal(d, "defer-first") + "]"
			}
			o := &Oblig{T: &Target{D: d, Fn: fn, Short: shortName(fn.String())}, Name: shortName(fn.String()) + oname, Expect: "unsat", Triv: ok, Result: "unsat"}
			if !ok {
				o.Triv, o.Result, o.Output = false, "unknown", "structural check failed: "+why
				o.Script = "(check-sat)" // never sent: the verdict is decided on the CFG
				o.decided = true
			}
			e.obs = append(e.obs, o)
			structTargets = append(structTargets, o.T)
		case "global":
			fn := resolveFn(all, pp, d.Fn)
			if fn == nil {
				return die(2, id, "%s:%d: spec function %s not found", d.File, d.Line, d.Fn)
			}
			e.globals = append(e.globals, &GlobalInv{D: d, Fn: fn})
		case "assume": // an assumed contract of a function that is not verified (trusted; listed in the evidence)
			if hasArg(d, "iface") { // on an interface method: the name is the method's full name
				full := d.Fn
				recvPart := full
				if i := strings.Index(full, ")"); i > 0 {
					recvPart = full[:i]
				}
				qualified := strings.Contains(recvPart, ".") // (*bytes.Buffer).M, (io.Reader).M: another package's type
				if strings.HasPrefix(full, "(*") && !qualified { // relative to this package: (*T).M
					full = "(*" + pp + "." + strings.TrimPrefix(full, "(*")
				} else if strings.HasPrefix(full, "(") && !qualified { // (T).M
					full = "(" + pp + "." + strings.TrimPrefix(full, "(")
				} else if !strings.Contains(full, "/") && !strings.Contains(full, ".") { // a function of this package
					full = pp + "." + full
				}
				e.ifaceAll[full] = append(e.ifaceAll[full], &Contract{D: d, SpecPkg: ssaPkgOf[d.PkgDir]})
				continue
			}
			fn := resolveFn(all, pp, d.Fn)
			if fn == nil {
				return die(2, id, "%s:%d: function %s not found", d.File, d.Line, d.Fn)
			}
			c := &Contract{D: d, Fn: fn, SpecPkg: ssaPkgOf[d.PkgDir]}
			if m := argVal(d, "modifies"); m != "" {
				c.Modifies = strings.Split(m, ",")
			}
			e.contracts[fn.String()] = c
		case "verify", "lemma", "bounded":
			if d.Kind == "verify" && hasArg(d, "modular") {
				fn := resolveFn(all, pp, d.Fn)
				if fn == nil {
					return die(2, id, "%s:%d: function under contract %s not found (renamed or removed?)", d.File, d.Line, d.Fn)
				}
				c := &Contract{D: d, Fn: fn}
				if m := argVal(d, "modifies"); m != "" {
					c.Modifies = strings.Split(m, ",")
				}
				e.contracts[fn.String()] = c
			}
			if !hasProp(d, id) {
				continue
			}
			if only != "" && !strings.Contains(d.Fn, only) {
				continue
			}
			if t := argVal(d, "tier"); t == "thorough" && tier != "thorough" {
				continue
			}
			fn := resolveFn(all, pp, d.Fn)
			if fn == nil {
				return die(2, id, "%s:%d: function under contract %s not found (renamed or removed?)", d.File, d.Line, d.Fn)
			}
			short := shortName(fn.String())
			if l := argVal(d, "as"); l != "" {
				short += "{" + l + "}" // a second contract of the same function (e.g. "for any input at all")
			}
			targets = append(targets, &Target{D: d, Fn: fn, Short: short})
		}
	}
	if len(targets)+len(structTargets) == 0 {
		return die(2, id, "no function under contract for this property")
	}
	for _, g := range e.globals {
		g.Fn.Pkg.Build()
		if off := globalFrame(g, all); off != "" {
			return die(2, id, "global invariant %s cannot be assumed: %s", g.D.Fn, off)
		}
	}
	// 3. generate verification conditions
	tGen0 := time.Now()
	for _, t := range targets {
		e.verify(t)
	}
	tGen := time.Since(tGen0)
	// a target whose obligations could not be formed (a clause that no longer binds, an unsupported construct, an
	// exploration budget) does not hide what the OTHER targets of the property say: they are still discharged; a
	// refuted obligation among them is reported (exit 1), and only if there is none does the run end UNDECIDED
	undecidedTargets = append([]string(nil), e.errs...)
	// 4. discharge
	tmo := 20
	if tier == "thorough" {
		tmo = 90
	}
	tSolve0 := time.Now()
	e.discharge(tmo)
	tSolve := time.Since(tSolve0)
	// 5. report
	rep := e.report(id, cfg, append(targets, structTargets...), contractFiles)
	rep.LoadS, rep.GenS, rep.SolveS = tLoad.Seconds(), tGen.Seconds(), tSolve.Seconds()
	rep.WallS = time.Since(t0).Seconds()
	code := rep.finish(id, cfg, only == "" && !noEv)
	return code
}

func argVal(d *Directive, key string) string {
	for _, a := range d.Args {
		if strings.HasPrefix(a, key+"=") {
			return a[len(key)+1:]
		}
	}
	return ""
}

func sortedKeys(m map[string]bool) []string {
	var r []string
	for k := range m {
		r = append(r, k)
	}
	sort.Strings(r)
	return r
}
