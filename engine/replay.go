package main

import (
	"encoding/json"
	"fmt"
	"go/types"
	"math/big"
	"os"
	"os/exec"
	"path/filepath"
	"strings"

	"golang.org/x/tools/go/ssa"
)

// ---------------------------------------------------------------------------------------------------------
// Replay: a `sat` answer is turned into concrete inputs (get-value on the entry state), a Go test is generated
// that calls the real function with them and re-evaluates the executable contract, and the test is run against
// the working tree through `go test -overlay` (nothing is written into the repository).

type leaf struct {
	alias string
	t     Term
	val   *big.Int // filled from the model (bit-vectors unsigned, Int signed, Bool 0/1)
}

type concretizer struct {
	e      *Engine
	s      *State // clone of the entry state: loads here read the entry heap
	leaves []*leaf
	fail   string
	recording bool
}

func (c *concretizer) leafOf(t Term) *leaf {
	if t.C != nil {
		return &leaf{t: t, val: t.C}
	}
	for _, l := range c.leaves {
		if l.t.S == t.S {
			return l
		}
	}
	l := &leaf{alias: fmt.Sprintf("gv!%d", len(c.leaves)), t: t}
	c.leaves = append(c.leaves, l)
	return l
}

// cval is a value tree mirroring a Go type, with leaves to be read from the model.
type cval struct {
	kind   string // scalar | slice | ptr | struct | array | string | unsupported
	typ    types.Type
	l      *leaf
	ref    *leaf
	off    *leaf
	ln     *leaf
	fields []*cval
	elems  []*cval // slice/array contents, filled in phase B
	sv     SliceV
	pv     PtrV
	av     ArrV
	pointee *cval
	big     int64
	str     string
	strT    Term
}

func (c *concretizer) build(v Val, t types.Type, depth int) *cval {
	if depth > 6 {
		c.fail = "value nesting too deep"
		return &cval{kind: "unsupported", typ: t}
	}
	switch x := v.(type) {
	case Term:
		return &cval{kind: "scalar", typ: t, l: c.leafOf(x)}
	case SliceV:
		return &cval{kind: "slice", typ: t, sv: x, ref: c.leafOf(x.Ref), off: c.leafOf(x.Off), ln: c.leafOf(x.Len)}
	case StructV:
		cv := &cval{kind: "struct", typ: t}
		for i, f := range x.F {
			cv.fields = append(cv.fields, c.build(f, x.T.Field(i).Type(), depth+1))
		}
		return cv
	case ArrV:
		return &cval{kind: "array", typ: t, av: x}
	case StrV:
		if x.Const != nil {
			return &cval{kind: "strconst", typ: t, str: *x.Const}
		}
		return &cval{kind: "string", typ: t, strT: x.T, ln: c.leafOf(app("slen", ISort(), x.T))}
	case IfaceV:
		if t.String() == "io.Writer" { // a recording stand-in: its Write calls land in verifspec.Trace
			c.recording = true
			return &cval{kind: "recwriter", typ: t}
		}
	case PtrV:
		if x.Nil {
			return &cval{kind: "ptr", typ: t, ref: &leaf{val: big.NewInt(0)}}
		}
		if x.Kind == "cell" || len(x.Path) > 0 || x.Kind == "elem" {
			c.fail = "interior pointer parameter"
			return &cval{kind: "unsupported", typ: t}
		}
		return &cval{kind: "ptr", typ: t, pv: x, ref: c.leafOf(x.Ref)}
	}
	c.fail = fmt.Sprintf("parameter of kind %T has no replay support", v)
	return &cval{kind: "unsupported", typ: t}
}

// expand (phase B) follows pointers and slices once the header values are known.
func (c *concretizer) expand(cv *cval, depth int) {
	switch cv.kind {
	case "string":
		if cv.ln.val == nil || cv.elems != nil {
			return
		}
		n := cv.ln.val.Int64()
		if n > 4096 {
			c.fail = fmt.Sprintf("model needs a string of %d bytes", n)
			return
		}
		cv.elems = []*cval{}
		for i := int64(0); i < n; i++ {
			cv.elems = append(cv.elems, &cval{kind: "scalar", typ: types.Typ[types.Uint8], l: c.leafOf(app("sat", bvSort(8), cv.strT, intT(i)))})
		}
	case "struct":
		for _, f := range cv.fields {
			c.expand(f, depth+1)
		}
	case "ptr":
		if cv.ref.val == nil || cv.ref.val.Sign() == 0 || cv.pointee != nil {
			return
		}
		et := cv.typ.Underlying().(*types.Pointer).Elem()
		c.s.spec++
		v := c.e.load(c.s, cv.pv, et)
		c.s.spec--
		cv.pointee = c.build(v, et, depth+1)
	case "slice":
		if cv.ln.val == nil || cv.elems != nil {
			return
		}
		n := cv.ln.val.Int64()
		if n > 1<<22 {
			c.fail = fmt.Sprintf("model needs a slice of %d elements", n)
			return
		}
		if n > 2048 { // contents of a large slice are not read from the model: it is replayed zero-filled
			cv.big = n
			cv.elems = []*cval{}
			return
		}
		et := cv.typ.Underlying().(*types.Slice).Elem()
		for i := int64(0); i < n; i++ {
			c.s.spec++
			v := c.loadAt(cv.sv, i, et)
			c.s.spec--
			cv.elems = append(cv.elems, c.build(v, et, depth+1))
		}
	case "array":
		if cv.elems != nil {
			return
		}
		et := cv.av.Elem
		for i := int64(0); i < cv.av.N; i++ {
			cv.elems = append(cv.elems, &cval{kind: "scalar", typ: et, l: c.leafOf(c.e.name(c.s, sel(cv.av.A, intT(i), elemSort(et))))})
		}
	}
}

func (c *concretizer) loadAt(sv SliceV, i int64, et types.Type) Val {
	if _, ok := sortOf(et); ok {
		if _, isPtr := et.Underlying().(*types.Pointer); !isPtr {
			return c.e.loadElem(c.s, sv.Ref, iadd(sv.Off, intT(i)), et)
		}
	}
	return c.e.load(c.s, PtrV{Kind: "elem", Ref: sv.Ref, Idx: iadd(sv.Off, intT(i)), Elem: et}, et)
}

func (c *concretizer) pending() bool {
	for _, l := range c.leaves {
		if l.val == nil {
			return true
		}
	}
	return false
}

// query runs z3 on the failing path with get-value for all leaves that have no value yet; known leaves are pinned.
func (c *concretizer) query(o *Oblig, small []string) bool {
	var b strings.Builder
	b.WriteString("(set-option :produce-models true)\n")
	b.WriteString(prelude)
	var roots []string
	for _, p := range o.st.pc[:o.npc] {
		roots = append(roots, p.S)
	}
	roots = append(roots, o.cond.S)
	for _, l := range c.leaves {
		roots = append(roots, l.t.S)
	}
	all := append(append([]string(nil), o.st.defs...), c.s.defs...)
	for _, d := range coneDefs(all, roots) {
		b.WriteString(d)
		b.WriteByte('\n')
	}
	for _, p := range o.st.pc[:o.npc] {
		b.WriteString("(assert " + p.S + ")\n")
	}
	if o.Expect == "unsat" {
		b.WriteString("(assert (not " + o.cond.S + "))\n")
	}
	var ask []*leaf
	for _, l := range c.leaves {
		if l.alias == "" {
			continue
		}
		fmt.Fprintf(&b, "(define-fun %s () %s %s)\n", l.alias, l.t.Sort, l.t.S)
		if l.val != nil {
			fmt.Fprintf(&b, "(assert (= %s %s))\n", l.alias, valTerm(l.val, l.t.Sort))
		} else {
			ask = append(ask, l)
		}
	}
	for _, x := range small {
		b.WriteString("(assert " + x + ")\n")
	}
	b.WriteString("(check-sat)\n")
	if len(ask) > 0 {
		b.WriteString("(get-value (")
		for _, l := range ask {
			b.WriteString(l.alias + " ")
		}
		b.WriteString("))\n")
	}
	dir, _ := os.MkdirTemp("", "govc-model-")
	defer os.RemoveAll(dir)
	fn := filepath.Join(dir, "m.smt2")
	os.WriteFile(fn, []byte(b.String()), 0644)
	txt := ""
	for _, sv := range [][]string{{"cvc5", "--tlimit=20000", fn}, {"z3-new", "-T:30", fn}} {
		out, _ := exec.Command(sv[0], sv[1:]...).CombinedOutput()
		txt = strings.TrimSpace(string(out))
		if strings.HasPrefix(txt, "sat") {
			break
		}
	}
	if !strings.HasPrefix(txt, "sat") {
		return false
	}
	vals := parseGetValue(txt[3:])
	for _, l := range ask {
		v, ok := vals[l.alias]
		if !ok {
			return false
		}
		l.val = v
	}
	return true
}

func valTerm(v *big.Int, sort string) string {
	switch {
	case sort == "Bool":
		if v.Sign() != 0 {
			return "true"
		}
		return "false"
	case sort == "Int" || sort == "Ref":
		return intMath(v)
	default:
		return bvT(v, bvWidth(sort)).S
	}
}

func intMath(v *big.Int) string {
	if v.Sign() < 0 {
		return "(- " + new(big.Int).Neg(v).String() + ")"
	}
	return v.String()
}

// parseGetValue reads ((a v) (b v) ...) into a map; values: #x.., #b.., (_ bvN w), true/false, N, (- N).
func parseGetValue(s string) map[string]*big.Int {
	toks := tokenize(s)
	res := map[string]*big.Int{}
	i := 0
	if i < len(toks) && toks[i] == "(" {
		i++
	}
	for i < len(toks) && toks[i] == "(" {
		i++
		name := toks[i]
		i++
		var v *big.Int
		switch {
		case toks[i] == "(" && toks[i+1] == "_":
			v, _ = new(big.Int).SetString(strings.TrimPrefix(toks[i+2], "bv"), 10)
			i += 5
		case toks[i] == "(" && toks[i+1] == "-":
			v, _ = new(big.Int).SetString(toks[i+2], 10)
			v.Neg(v)
			i += 4
		case strings.HasPrefix(toks[i], "#x"):
			v, _ = new(big.Int).SetString(toks[i][2:], 16)
			i++
		case strings.HasPrefix(toks[i], "#b"):
			v, _ = new(big.Int).SetString(toks[i][2:], 2)
			i++
		case toks[i] == "true":
			v = big.NewInt(1)
			i++
		case toks[i] == "false":
			v = big.NewInt(0)
			i++
		default:
			v, _ = new(big.Int).SetString(toks[i], 10)
			i++
		}
		if v != nil {
			res[name] = v
		}
		if i < len(toks) && toks[i] == ")" {
			i++
		}
	}
	return res
}

func tokenize(s string) []string {
	var toks []string
	cur := ""
	for _, ch := range s {
		switch ch {
		case '(', ')':
			if cur != "" {
				toks = append(toks, cur)
				cur = ""
			}
			toks = append(toks, string(ch))
		case ' ', '\n', '\t', '\r':
			if cur != "" {
				toks = append(toks, cur)
				cur = ""
			}
		default:
			cur += string(ch)
		}
	}
	if cur != "" {
		toks = append(toks, cur)
	}
	return toks
}

// ---- Go source for a concretized value

func typeStr(t types.Type, pkg *types.Package) string {
	return types.TypeString(t, func(p *types.Package) string {
		if p == pkg {
			return ""
		}
		return p.Name()
	})
}

func (c *concretizer) goExpr(cv *cval, pkg *types.Package) string {
	ts := typeStr(cv.typ, pkg)
	switch cv.kind {
	case "strconst":
		return fmt.Sprintf("%s(%q)", ts, cv.str)
	case "string":
		b := make([]byte, 0, len(cv.elems))
		for _, el := range cv.elems {
			v := byte(0)
			if el.l.val != nil {
				v = byte(el.l.val.Int64())
			}
			b = append(b, v)
		}
		return fmt.Sprintf("%s(%q)", ts, string(b))
	case "recwriter":
		return "io.Writer(&vs.RecWriter{})"
	case "scalar":
		v := cv.l.val
		if v == nil {
			v = big.NewInt(0)
		}
		b, _ := cv.typ.Underlying().(*types.Basic)
		if b == nil {
			c.fail = "scalar of type " + ts
			return "nil"
		}
		if b.Info()&types.IsBoolean != 0 {
			if v.Sign() != 0 {
				return ts + "(true)"
			}
			return ts + "(false)"
		}
		if b.Info()&types.IsInteger != 0 {
			if b.Info()&types.IsUnsigned == 0 {
				if w := bvWidth(cv.l.t.Sort); w > 0 {
					v = signedVal(v, w)
				}
			}
			return fmt.Sprintf("%s(%s)", ts, v.String())
		}
		c.fail = "scalar of type " + ts
		return "nil"
	case "slice":
		if cv.ref.val == nil || cv.ref.val.Sign() == 0 {
			return ts + "(nil)"
		}
		if cv.big > 0 {
			return fmt.Sprintf("make(%s, %d)", ts, cv.big)
		}
		var parts []string
		for _, el := range cv.elems {
			parts = append(parts, c.goExpr(el, pkg))
		}
		return ts + "{" + strings.Join(parts, ", ") + "}"
	case "array":
		var parts []string
		for _, el := range cv.elems {
			parts = append(parts, c.goExpr(el, pkg))
		}
		return ts + "{" + strings.Join(parts, ", ") + "}"
	case "struct":
		st := cv.typ.Underlying().(*types.Struct)
		var parts []string
		for i, f := range cv.fields {
			if st.Field(i).Name() == "_" {
				continue
			}
			if f.kind == "unsupported" {
				continue // left at its zero value (sync.Mutex and the like)
			}
			name := st.Field(i).Name()
			parts = append(parts, name+": "+c.goExpr(f, pkg))
		}
		return ts + "{" + strings.Join(parts, ", ") + "}"
	case "ptr":
		if cv.ref.val == nil || cv.ref.val.Sign() == 0 || cv.pointee == nil {
			return "(" + ts + ")(nil)"
		}
		et := typeStr(cv.typ.Underlying().(*types.Pointer).Elem(), pkg)
		return fmt.Sprintf("func() %s { v := %s; return &v }()", ts, strings.TrimPrefix(c.goExpr(cv.pointee, pkg), "")) + fmt.Sprintf("/* %s */", et)
	}
	c.fail = "unsupported value of type " + ts
	return "nil"
}

type replayMeta struct {
	Property   string   `json:"property"`
	Obligation string   `json:"obligation"`
	Kind       string   `json:"kind"` // safe | ensures | lemma
	Post       string   `json:"post,omitempty"`
	PkgDir     string   `json:"pkg_dir"`
	Repo       string   `json:"repo"`
	Confirmed  bool     `json:"confirmed_on_real_code"`
	Inputs     []string `json:"inputs,omitempty"`
	Note       string   `json:"note,omitempty"`
}

// makeReplay writes the replay directory of a failed obligation. It returns whether a concrete failing input was
// confirmed against the real code, and a note for the VIOLATION line.
func (e *Engine) makeReplay(dir, id string, o *SrcOblig) (bool, string) {
	w := o.worst
	info := fmt.Sprintf("property: %s\nobligation: %s\nresult: %s\nsolver: %s\nsolver output:\n%s\n", id, o.Name, o.Result, w.Solver, w.Output)
	os.WriteFile(filepath.Join(dir, "obligation.txt"), []byte(info), 0644)
	os.WriteFile(filepath.Join(dir, "vc.smt2"), []byte(w.Script), 0644)
	meta := &replayMeta{Property: id, Obligation: o.Name, PkgDir: w.T.D.PkgDir, Repo: repoDir}
	defer func() {
		b, _ := json.MarshalIndent(meta, "", " ")
		os.WriteFile(filepath.Join(dir, "meta.json"), b, 0644)
	}()
	if o.Result != "failed:sat" {
		meta.Note = "no model: the solvers returned no counterexample (unknown/timeout)"
		if n := e.fuzzFallback(dir, w, meta); n != "" {
			meta.Note += "; " + n
		}
		if meta.Confirmed {
			return true, " input=" + strings.Join(meta.Inputs, ";")
		}
		return false, ""
	}
	var note string
	func() {
		defer func() {
			if r := recover(); r != nil {
				note = fmt.Sprint("concretization failed: ", r)
			}
		}()
		note = e.replayFromModel(dir, w, meta)
	}()
	meta.Note = note
	if !meta.Confirmed {
		if n := e.fuzzFallback(dir, w, meta); n != "" {
			meta.Note += "; " + n
		}
	}
	if meta.Confirmed {
		return true, " input=" + strings.Join(meta.Inputs, ";")
	}
	return false, ""
}

func (e *Engine) replayFromModel(dir string, w *Oblig, meta *replayMeta) string {
	run := w.run
	if run == nil || w.st == nil {
		return "no run information"
	}
	fn := run.T.Fn
	c := &concretizer{e: e, s: run.Entry0.clone()}
	var roots []*cval
	for i, p := range fn.Params {
		roots = append(roots, c.build(run.Args[i], p.Type(), 0))
	}
	if c.fail != "" {
		return "no replay: " + c.fail
	}
	// phase A: headers and scalars, preferring small sizes
	var small []string
	for _, l := range c.leaves {
		if strings.HasSuffix(l.t.S, ".len") || strings.Contains(l.t.S, ".len!") {
			small = append(small, ilt(l.t, intT(48)).S)
		}
	}
	if !c.query(w, small) && !c.query(w, nil) {
		return "no replay: the model could not be re-obtained from z3"
	}
	// phase B (repeated): follow pointers / slice contents
	for round := 0; round < 6; round++ {
		for _, r := range roots {
			c.expandAll(r)
		}
		if c.fail != "" {
			return "no replay: " + c.fail
		}
		if !c.pending() {
			break
		}
		if !c.query(w, nil) {
			return "no replay: the model could not be extended to the heap contents"
		}
	}
	if c.pending() {
		return "no replay: value tree too deep"
	}
	// Go test
	pkg := fn.Pkg.Pkg
	var src strings.Builder
	fmt.Fprintf(&src, "//go:build verif\n\npackage %s\n\nimport (\n\t\"fmt\"\n\t\"io\"\n\t\"testing\"\n\n\tvs \"github.com/emitter-io/emitter/internal/verifspec\"\n)\n\nvar _ io.Writer\n\n", pkg.Name())
	fmt.Fprintf(&src, "// Replay of obligation %s (generated by govc from the solver's counterexample).\n", meta.Obligation)
	fmt.Fprintf(&src, "func TestVerifReplay(t *testing.T) {\n\tvs.Trace = nil\n\tvs.Recording = %v\n", c.recording)
	var argNames []string
	for i, p := range fn.Params {
		nm := fmt.Sprintf("a%d", i)
		argNames = append(argNames, nm)
		ex := c.goExpr(roots[i], pkg)
		fmt.Fprintf(&src, "\t%s := %s // %s\n", nm, ex, p.Name())
		in := fmt.Sprintf("%s=%s", p.Name(), ex)
		if len(in) > 160 {
			in = in[:160] + "…"
		}
		meta.Inputs = append(meta.Inputs, in)
	}
	if c.fail != "" {
		return "no replay: " + c.fail
	}
	byName := map[string]string{}
	for i, p := range fn.Params {
		byName[p.Name()] = argNames[i]
	}
	kind := "ensures"
	switch {
	case strings.Contains(meta.Obligation, "#safe."):
		kind = "safe"
	case strings.Contains(meta.Obligation, "#lemma") || strings.Contains(meta.Obligation, "#bounded"):
		kind = "lemma"
	case strings.Contains(meta.Obligation, "#ensures["):
		i := strings.Index(meta.Obligation, "#ensures[")
		meta.Post = strings.TrimSuffix(meta.Obligation[i+len("#ensures["):], "]")
	default:
		kind = "other"
	}
	meta.Kind = kind
	// snapshots for old_ parameters of the post
	var post *ssa.Function
	if meta.Post != "" {
		post = fn.Pkg.Func(meta.Post)
	}
	oldOf := map[string]string{}
	if post != nil {
		for _, pp := range post.Params {
			if strings.HasPrefix(pp.Name(), "old_") {
				base := pp.Name()[4:]
				an, ok := byName[base]
				if !ok {
					return "no replay: post names " + pp.Name()
				}
				on := "old_" + an
				oldOf[pp.Name()] = on
				switch pp.Type().Underlying().(type) {
				case *types.Slice:
					fmt.Fprintf(&src, "\t%s := append(%s(nil), %s...)\n", on, typeStr(pp.Type(), pkg), an)
				default:
					if _, isPtr := fn.Params[paramIndex(fn, base)].Type().Underlying().(*types.Pointer); isPtr {
						fmt.Fprintf(&src, "\tvar %s %s\n\tif %s != nil {\n\t\t%s = *%s\n\t}\n", on, typeStr(pp.Type(), pkg), an, on, an)
					} else {
						fmt.Fprintf(&src, "\t%s := %s\n", on, an)
					}
				}
			}
		}
	}
	if run.T.D.Pre != "" {
		pre := fn.Pkg.Func(run.T.D.Pre)
		var pa []string
		for _, pp := range pre.Params {
			pa = append(pa, byName[pp.Name()])
		}
		fmt.Fprintf(&src, "\tif !%s(%s) {\n\t\tfmt.Println(\"REPLAY-PRE-FALSE\")\n\t\treturn\n\t}\n", run.T.D.Pre, strings.Join(pa, ", "))
	}
	fmt.Fprintf(&src, "\tdefer func() {\n\t\tif r := recover(); r != nil {\n\t\t\tif r == interface{}(vs.GhostOnly) {\n\t\t\t\tfmt.Println(\"REPLAY-NOT-EXECUTABLE: the clause uses a verifier-only helper\")\n\t\t\t\treturn\n\t\t\t}\n\t\t\tfmt.Println(\"REPLAY-PANIC:\", r)\n\t\t}\n\t}()\n")
	// the call
	var call string
	if fn.Signature.Recv() != nil {
		call = fmt.Sprintf("%s.%s(%s)", argNames[0], fn.Name(), strings.Join(argNames[1:], ", "))
	} else {
		call = fmt.Sprintf("%s(%s)", fn.Name(), strings.Join(argNames, ", "))
	}
	nres := fn.Signature.Results().Len()
	var resNames []string
	for i := 0; i < nres; i++ {
		resNames = append(resNames, fmt.Sprintf("res%d", i))
	}
	if nres > 0 {
		fmt.Fprintf(&src, "\t%s := %s\n", strings.Join(resNames, ", "), call)
		for _, r := range resNames {
			fmt.Fprintf(&src, "\t_ = %s\n", r)
		}
	} else {
		fmt.Fprintf(&src, "\t%s\n", call)
	}
	switch kind {
	case "lemma":
		fmt.Fprintf(&src, "\tif !res0 {\n\t\tfmt.Println(\"REPLAY-POST-FALSE: lemma returned false\")\n\t}\n")
	case "ensures":
		if post == nil {
			return "no replay: post function not found"
		}
		var pa []string
		for _, pp := range post.Params {
			nm := pp.Name()
			switch {
			case strings.HasPrefix(nm, "old_"):
				pa = append(pa, oldOf[nm])
			case strings.HasPrefix(nm, "res") && isDigits(nm[3:]):
				pa = append(pa, nm)
			default:
				pa = append(pa, byName[nm])
			}
		}
		fmt.Fprintf(&src, "\tif !%s(%s) {\n\t\tfmt.Println(\"REPLAY-POST-FALSE: %s\")\n\t}\n", meta.Post, strings.Join(pa, ", "), meta.Post)
	}
	fmt.Fprintf(&src, "\tfmt.Println(\"REPLAY-DONE\")\n}\n")
	os.WriteFile(filepath.Join(dir, "replay_test.go"), []byte(src.String()), 0644)
	out, confirmed := execReplay(dir, meta)
	meta.Confirmed = confirmed
	if confirmed {
		return "counterexample confirmed by executing the real code: " + firstMarker(out)
	}
	return "the solver's model did not reproduce on the real code (it may come from an abstraction: havocked callee, stub, opaque function): " + firstMarker(out)
}

func (c *concretizer) expandAll(cv *cval) {
	c.expand(cv, 0)
	for _, f := range cv.fields {
		c.expandAll(f)
	}
	for _, f := range cv.elems {
		c.expandAll(f)
	}
	if cv.pointee != nil {
		c.expandAll(cv.pointee)
	}
}

func firstMarker(out string) string {
	for _, l := range strings.Split(out, "\n") {
		if strings.HasPrefix(l, "REPLAY-") && !strings.HasPrefix(l, "REPLAY-DONE") {
			return truncate(l, 200)
		}
	}
	for _, l := range strings.Split(out, "\n") {
		if strings.TrimSpace(l) != "" {
			return truncate(l, 200)
		}
	}
	return ""
}

// execReplay runs the generated test against the working tree. Confirmed means: a panic for a safety obligation,
// a false postcondition (or a panic) for a functional one.
func execReplay(dir string, meta *replayMeta) (string, bool) {
	ov := map[string]map[string]string{"Replace": {filepath.Join(meta.PkgDir, "zz_replay_verif_test.go"): filepath.Join(dir, "replay_test.go")}}
	b, _ := json.Marshal(ov)
	ovf := filepath.Join(dir, "overlay.json")
	os.WriteFile(ovf, b, 0644)
	rel, err := filepath.Rel(meta.Repo, meta.PkgDir)
	if err != nil {
		rel = meta.PkgDir
	}
	args := []string{"test", "-tags", "verif", "-overlay", ovf, "-vet=off", "-count=1", "-timeout", "60s", "-v", "-run", "^TestVerifReplay$", "./" + rel}
	cmd := exec.Command("go", args...)
	cmd.Dir = meta.Repo
	cmd.Env = append(os.Environ(), "GOFLAGS=-mod=mod", "GOPROXY=off")
	out, _ := cmd.CombinedOutput()
	txt := string(out)
	os.WriteFile(filepath.Join(dir, "replay_output.txt"), out, 0644)
	os.WriteFile(filepath.Join(dir, "replay.sh"), []byte("#!/bin/sh\ncd "+meta.Repo+" && GOFLAGS=-mod=mod GOPROXY=off go "+strings.Join(args, " ")+"\n"), 0755)
	if strings.Contains(txt, "REPLAY-PRE-FALSE") || strings.Contains(txt, "REPLAY-NOT-EXECUTABLE") {
		return txt, false
	}
	switch meta.Kind {
	case "safe":
		return txt, strings.Contains(txt, "REPLAY-PANIC")
	default:
		return txt, strings.Contains(txt, "REPLAY-PANIC") || strings.Contains(txt, "REPLAY-POST-FALSE")
	}
}

func runReplay(path string) int {
	b, err := os.ReadFile(filepath.Join(path, "meta.json"))
	if err != nil {
		fmt.Println(err)
		return 2
	}
	var meta replayMeta
	json.Unmarshal(b, &meta)
	ob, _ := os.ReadFile(filepath.Join(path, "obligation.txt"))
	fmt.Print(string(ob))
	if _, err := os.Stat(filepath.Join(path, "replay_test.go")); err != nil {
		fmt.Println("no executable replay for this obligation:", meta.Note)
		return 0
	}
	if r := os.Getenv("VERIF_REPO"); r != "" {
		rel, _ := filepath.Rel(meta.Repo, meta.PkgDir)
		meta.Repo, meta.PkgDir = r, filepath.Join(r, rel)
	}
	out, confirmed := execReplay(path, &meta)
	fmt.Print(out)
	if confirmed {
		fmt.Printf("VIOLATION property=%s replay=%s obligation=%s\n", meta.Property, path, meta.Obligation)
		return 1
	}
	return 0
}


// fuzzFallback is used when the solver's model cannot be turned into inputs of the real function (it speaks about
// a stubbed dependency, or there is no model): the executable contract is run on a fixed-plus-seeded corpus of
// inputs, looking for a concrete failure of the same obligation kind. Only functions whose parameters are
// strings, byte slices, integers and booleans are covered.
func (e *Engine) fuzzFallback(dir string, w *Oblig, meta *replayMeta) string {
	run := w.run
	if run == nil {
		return ""
	}
	fn := run.T.Fn
	pkg := fn.Pkg.Pkg
	var gens []string
	for _, p := range fn.Params {
		ts := typeStr(p.Type(), pkg)
		switch u := p.Type().Underlying().(type) {
		case *types.Basic:
			switch {
			case u.Kind() == types.String:
				gens = append(gens, ts+"(string(corpusBytes[i%len(corpusBytes)]))")
			case u.Info()&types.IsBoolean != 0:
				gens = append(gens, ts+"(i%2 == 0)")
			case u.Info()&types.IsInteger != 0:
				gens = append(gens, ts+"(corpusInts[(i/3)%len(corpusInts)])")
			default:
				return ""
			}
		case *types.Slice:
			if !elemIsByte(u.Elem()) {
				return ""
			}
			gens = append(gens, ts+"(append([]byte(nil), corpusBytes[(i/7)%len(corpusBytes)]...))")
		default:
			return ""
		}
	}
	kind := meta.Kind
	if kind == "" {
		switch {
		case strings.Contains(meta.Obligation, "#safe."):
			kind = "safe"
		case strings.Contains(meta.Obligation, "#ensures["):
			kind = "ensures"
			i := strings.Index(meta.Obligation, "#ensures[")
			meta.Post = strings.TrimSuffix(meta.Obligation[i+len("#ensures["):], "]")
		case strings.Contains(meta.Obligation, "#lemma"):
			kind = "lemma"
		default:
			return ""
		}
		meta.Kind = kind
	}
	if kind == "ensures" {
		post := fn.Pkg.Func(meta.Post)
		if post == nil {
			return ""
		}
		for _, pp := range post.Params {
			if strings.HasPrefix(pp.Name(), "old_") {
				return "" // snapshots are not generated in the corpus harness
			}
		}
	}
	var src strings.Builder
	fmt.Fprintf(&src, "//go:build verif\n\npackage %s\n\nimport (\n\t\"fmt\"\n\t\"math/rand\"\n\t\"testing\"\n)\n\n", pkg.Name())
	fmt.Fprintf(&src, "// Corpus search for a concrete failure of obligation %s (the solver's model did not map to inputs).\n", meta.Obligation)
	fmt.Fprintf(&src, "func TestVerifReplay(t *testing.T) {\n\trnd := rand.New(rand.NewSource(%d))\n\tvar corpusBytes [][]byte\n", seedVal())
	fmt.Fprintf(&src, "\tfor n := 0; n <= 48; n++ {\n\t\tb := make([]byte, n)\n\t\tfor k := range b {\n\t\t\tb[k] = 'A'\n\t\t}\n\t\tcorpusBytes = append(corpusBytes, b)\n\t}\n")
	fmt.Fprintf(&src, "\tfor n := 0; n < 64; n++ {\n\t\tb := make([]byte, rnd.Intn(70))\n\t\trnd.Read(b)\n\t\tcorpusBytes = append(corpusBytes, b)\n\t}\n")
	fmt.Fprintf(&src, "\tcorpusInts := []int64{0, 1, -1, 2, 7, 255, 256, 65535, 65536, 1 << 31, -(1 << 31), 1<<63 - 1, -(1 << 63)}\n\t_ = corpusInts\n")
	fmt.Fprintf(&src, "\tfor i := 0; i < 4000; i++ {\n\t\tfunc() {\n")
	var argNames []string
	for k, g := range gens {
		fmt.Fprintf(&src, "\t\t\ta%d := %s\n", k, g)
		argNames = append(argNames, fmt.Sprintf("a%d", k))
	}
	byName := map[string]string{}
	for i, p := range fn.Params {
		byName[p.Name()] = argNames[i]
	}
	if run.T.D.Pre != "" {
		pre := fn.Pkg.Func(run.T.D.Pre)
		var pa []string
		for _, pp := range pre.Params {
			pa = append(pa, byName[pp.Name()])
		}
		fmt.Fprintf(&src, "\t\t\tif !%s(%s) {\n\t\t\t\treturn\n\t\t\t}\n", run.T.D.Pre, strings.Join(pa, ", "))
	}
	fmt.Fprintf(&src, "\t\t\tdefer func() {\n\t\t\t\tif r := recover(); r != nil {\n\t\t\t\t\tfmt.Printf(\"REPLAY-PANIC: %%v input=%%q\\n\", r, fmt.Sprint(%s))\n\t\t\t\t}\n\t\t\t}()\n", strings.Join(argNames, ", "))
	var call string
	if fn.Signature.Recv() != nil {
		return ""
	}
	call = fmt.Sprintf("%s(%s)", fn.Name(), strings.Join(argNames, ", "))
	nres := fn.Signature.Results().Len()
	var resNames []string
	for i := 0; i < nres; i++ {
		resNames = append(resNames, fmt.Sprintf("res%d", i))
	}
	if nres > 0 {
		fmt.Fprintf(&src, "\t\t\t%s := %s\n", strings.Join(resNames, ", "), call)
		for _, r := range resNames {
			fmt.Fprintf(&src, "\t\t\t_ = %s\n", r)
		}
	} else {
		fmt.Fprintf(&src, "\t\t\t%s\n", call)
	}
	switch kind {
	case "lemma":
		fmt.Fprintf(&src, "\t\t\tif !res0 {\n\t\t\t\tfmt.Printf(\"REPLAY-POST-FALSE: lemma input=%%q\\n\", fmt.Sprint(%s))\n\t\t\t}\n", strings.Join(argNames, ", "))
	case "ensures":
		post := fn.Pkg.Func(meta.Post)
		var pa []string
		for _, pp := range post.Params {
			nm := pp.Name()
			if strings.HasPrefix(nm, "res") && isDigits(nm[3:]) {
				pa = append(pa, nm)
			} else {
				pa = append(pa, byName[nm])
			}
		}
		fmt.Fprintf(&src, "\t\t\tif !%s(%s) {\n\t\t\t\tfmt.Printf(\"REPLAY-POST-FALSE: %s input=%%q\\n\", fmt.Sprint(%s))\n\t\t\t}\n", meta.Post, strings.Join(pa, ", "), meta.Post, strings.Join(argNames, ", "))
	}
	fmt.Fprintf(&src, "\t\t}()\n\t}\n\tfmt.Println(\"REPLAY-DONE\")\n}\n")
	os.WriteFile(filepath.Join(dir, "replay_test.go"), []byte(src.String()), 0644)
	out, confirmed := execReplay(dir, meta)
	meta.Confirmed = confirmed
	if confirmed {
		m := firstMarker(out)
		meta.Inputs = []string{m}
		return "a concrete failing input was found by the corpus search of the executable contract: " + m
	}
	os.Remove(filepath.Join(dir, "replay_test.go"))
	return "corpus search over 4000 inputs found no concrete failure"
}
