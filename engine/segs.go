package main

import (
	"fmt"
	"math/big"
	"strings"
)

// Seg is a run of bits: either bits [Hi..Lo] of a source term, or N zero bits (Src == "").
type Seg struct {
	Src    string
	SrcW   int
	Hi, Lo int
	N      int // number of bits
}

var segTable = map[string][]Seg{}

// segsOf returns the bit-slice description of t (MSB first).
func segsOf(t Term) []Seg {
	w := bvWidth(t.Sort)
	if w == 0 {
		return nil
	}
	if t.C != nil {
		if t.C.Sign() == 0 {
			return []Seg{{N: w}}
		}
		return nil
	}
	if sg, ok := segTable[t.S]; ok {
		return sg
	}
	return []Seg{{Src: t.S, SrcW: w, Hi: w - 1, Lo: 0, N: w}}
}

func normSegs(in []Seg) []Seg {
	var out []Seg
	for _, s := range in {
		if s.N == 0 {
			continue
		}
		if n := len(out); n > 0 {
			p := &out[n-1]
			if p.Src == "" && s.Src == "" {
				p.N += s.N
				continue
			}
			if p.Src != "" && p.Src == s.Src && p.Lo == s.Hi+1 {
				p.Lo = s.Lo
				p.N += s.N
				continue
			}
		}
		out = append(out, s)
	}
	return out
}

func takeLow(sg []Seg, n int) []Seg { // keep the n least significant bits
	var out []Seg
	for i := len(sg) - 1; i >= 0 && n > 0; i-- {
		s := sg[i]
		if s.N > n {
			if s.Src != "" {
				s.Hi = s.Lo + n - 1
			}
			s.N = n
		}
		n -= s.N
		out = append([]Seg{s}, out...)
	}
	return out
}

func takeHigh(sg []Seg, n int) []Seg { // keep the n most significant bits
	var out []Seg
	for i := 0; i < len(sg) && n > 0; i++ {
		s := sg[i]
		if s.N > n {
			if s.Src != "" {
				s.Lo = s.Hi - n + 1
			}
			s.N = n
		}
		n -= s.N
		out = append(out, s)
	}
	return out
}

func segWidth(sg []Seg) int {
	n := 0
	for _, s := range sg {
		n += s.N
	}
	return n
}

// fromSegs builds the canonical term for a bit-slice description.
func fromSegs(sg []Seg, w int) Term {
	sg = normSegs(sg)
	if len(sg) == 1 {
		s := sg[0]
		if s.Src == "" {
			return bvT(big.NewInt(0), w)
		}
		if s.Lo == 0 && s.Hi == s.SrcW-1 {
			return Term{S: s.Src, Sort: bvSort(w)}
		}
	}
	var parts []string
	for _, s := range sg {
		if s.Src == "" {
			parts = append(parts, fmt.Sprintf("(_ bv0 %d)", s.N))
		} else if s.Lo == 0 && s.Hi == s.SrcW-1 {
			parts = append(parts, s.Src)
		} else {
			parts = append(parts, fmt.Sprintf("((_ extract %d %d) %s)", s.Hi, s.Lo, s.Src))
		}
	}
	t := Term{Sort: bvSort(w)}
	if len(parts) == 1 {
		t.S = parts[0]
	} else {
		t.S = "(concat " + strings.Join(parts, " ") + ")"
	}
	segTable[t.S] = sg
	return t
}

// orSegs merges two descriptions when no bit position is non-zero in both; ok=false otherwise.
func orSegs(a, b []Seg, w int) ([]Seg, bool) {
	// expand to per-bit is too slow for 64 bits? 64 entries is fine.
	type bit struct {
		src string
		sw  int
		idx int
	}
	exp := func(sg []Seg) []bit {
		var bs []bit
		for _, s := range sg {
			for k := 0; k < s.N; k++ {
				if s.Src == "" {
					bs = append(bs, bit{})
				} else {
					bs = append(bs, bit{s.Src, s.SrcW, s.Hi - k})
				}
			}
		}
		return bs
	}
	ba, bb := exp(a), exp(b)
	if len(ba) != w || len(bb) != w {
		return nil, false
	}
	var out []Seg
	for i := 0; i < w; i++ {
		x := ba[i]
		if x.src == "" {
			x = bb[i]
		} else if bb[i].src != "" {
			return nil, false
		}
		if x.src == "" {
			out = append(out, Seg{N: 1})
		} else {
			out = append(out, Seg{Src: x.src, SrcW: x.sw, Hi: x.idx, Lo: x.idx, N: 1})
		}
	}
	return normSegs(out), true
}
