package main

import (
	"fmt"
	"go/types"
	"math/big"
	"strings"
)

// Term is an SMT term with its sort and an optional concrete value.
type Term struct {
	S    string
	Sort string   // "Bool", "Int", "(_ BitVec N)", array sorts...
	C    *big.Int // concrete value if known (Int or BV (unsigned repr)); for Bool: 0/1
	Base string   // if the term is (Base + Off): the base term text
	Off  *big.Int
}

func withOff(t Term, a Term, delta *big.Int) Term {
	if a.C != nil {
		return t
	}
	base, off := a.Base, a.Off
	if base == "" {
		base, off = a.S, big.NewInt(0)
	}
	t.Base, t.Off = base, new(big.Int).Add(off, delta)
	return t
}

func sameTerm(a, b Term) bool {
	if a.C != nil && b.C != nil {
		return a.C.Cmp(b.C) == 0
	}
	if a.S == b.S {
		return true
	}
	ab, ao, bb, bo := a.Base, a.Off, b.Base, b.Off
	if ab == "" {
		ab, ao = a.S, big.NewInt(0)
	}
	if bb == "" {
		bb, bo = b.S, big.NewInt(0)
	}
	return a.C == nil && b.C == nil && ab == bb && ao.Cmp(bo) == 0
}

func distinctIdx(a, b Term) bool {
	if a.C != nil && b.C != nil {
		return a.C.Cmp(b.C) != 0
	}
	if a.C != nil || b.C != nil {
		return false
	}
	ab, ao, bb, bo := a.Base, a.Off, b.Base, b.Off
	if ab == "" {
		ab, ao = a.S, big.NewInt(0)
	}
	if bb == "" {
		bb, bo = b.S, big.NewInt(0)
	}
	return ab == bb && ao.Cmp(bo) != 0
}

func atomicRef(a Term) bool {
	return a.C != nil || strings.HasPrefix(a.S, "ref!") || strings.HasPrefix(a.S, "p_")
}

func distinctRef(a, b Term) bool {
	if a.C != nil && b.C != nil {
		return a.C.Cmp(b.C) != 0
	}
	if !atomicRef(a) || !atomicRef(b) || a.S == b.S {
		return false
	}
	if strings.HasPrefix(a.S, "p_") && strings.HasPrefix(b.S, "p_") {
		return false // two parameters may alias
	}
	return true
}

func (t Term) IsConst() bool { return t.C != nil }

func bvSort(n int) string { return fmt.Sprintf("(_ BitVec %d)", n) }

func bvWidth(sort string) int {
	var n int
	if _, err := fmt.Sscanf(sort, "(_ BitVec %d)", &n); err != nil {
		return 0
	}
	return n
}

func boolT(b bool) Term {
	if b {
		return Term{S: "true", Sort: "Bool", C: big.NewInt(1)}
	}
	return Term{S: "false", Sort: "Bool", C: big.NewInt(0)}
}

var intBV = true // Go int is a 64-bit bit-vector (DESIGN 2.3)

func ISort() string {
	if intBV {
		return bvSort(64)
	}
	return "Int"
}

func intT(v int64) Term { return intBig(big.NewInt(v)) }

func refT(v int64) Term {
	if v < 0 { // SMT-LIB has no negative numerals: cvc5 rejects "-5" (z3 accepts it)
		return Term{S: fmt.Sprintf("(- %d)", -v), Sort: "Ref", C: big.NewInt(v)}
	}
	return Term{S: fmt.Sprint(v), Sort: "Ref", C: big.NewInt(v)}
}

func refPos(r Term) Term { return app(">", "Bool", r, refT(0)) }

func icmp(op string, a, b Term) Term {
	a2, b2 := a, b
	if a.C != nil && b.C != nil {
		x, y := a.C, b.C
		if w := bvWidth(a.Sort); w > 0 {
			x, y = signedVal(x, w), signedVal(y, w)
		}
		c := x.Cmp(y)
		switch op {
		case "<":
			return boolT(c < 0)
		case "<=":
			return boolT(c <= 0)
		case ">":
			return boolT(c > 0)
		case ">=":
			return boolT(c >= 0)
		}
	}
	if a.Sort == "Int" {
		return app(op, "Bool", a2, b2)
	}
	return app(map[string]string{"<": "bvslt", "<=": "bvsle", ">": "bvsgt", ">=": "bvsge"}[op], "Bool", a2, b2)
}
func ile(a, b Term) Term { return icmp("<=", a, b) }
func ilt(a, b Term) Term { return icmp("<", a, b) }
func iadd(a, b Term) Term {
	if a.C != nil && b.C != nil {
		if a.Sort == "Int" {
			return intBig(new(big.Int).Add(a.C, b.C))
		}
		return bvT(new(big.Int).Add(a.C, b.C), 64)
	}
	if a.C != nil { // keep the constant on the right
		a, b = b, a
	}
	if b.C != nil && b.C.Sign() == 0 {
		return a
	}
	var t Term
	if a.Sort == "Int" {
		t = app("+", "Int", a, b)
	} else {
		t = app("bvadd", a.Sort, a, b)
	}
	if b.C != nil {
		d := b.C
		if w := bvWidth(b.Sort); w > 0 {
			d = signedVal(b.C, w)
		}
		// canonical text: base + total offset
		if a.Base != "" {
			tot := new(big.Int).Add(a.Off, d)
			baseT := Term{S: a.Base, Sort: a.Sort}
			if tot.Sign() == 0 {
				return baseT
			}
			if a.Sort == "Int" {
				t = app("+", "Int", baseT, intBig(tot))
			} else {
				t = app("bvadd", a.Sort, baseT, bvT(tot, 64))
			}
		}
		t = withOff(t, a, d)
	}
	return t
}
func isub(a, b Term) Term {
	if a.C != nil && b.C != nil {
		if a.Sort == "Int" {
			return intBig(new(big.Int).Sub(a.C, b.C))
		}
		return bvT(new(big.Int).Sub(a.C, b.C), 64)
	}
	if b.C != nil && a.C == nil {
		d := b.C
		if w := bvWidth(b.Sort); w > 0 {
			d = signedVal(b.C, w)
		}
		if a.Sort == "Int" {
			return iadd(a, intBig(new(big.Int).Neg(d)))
		}
		return iadd(a, bvT(new(big.Int).Neg(d), 64))
	}
	if a.Sort == "Int" {
		return app("-", "Int", a, b)
	}
	return app("bvsub", a.Sort, a, b)
}

func intBig(v *big.Int) Term {
	if intBV {
		return bvT(v, 64)
	}
	if v.Sign() < 0 {
		return Term{S: "(- " + new(big.Int).Neg(v).String() + ")", Sort: "Int", C: new(big.Int).Set(v)}
	}
	return Term{S: v.String(), Sort: "Int", C: new(big.Int).Set(v)}
}

func bvT(v *big.Int, w int) Term {
	m := new(big.Int).Lsh(big.NewInt(1), uint(w))
	u := new(big.Int).Mod(v, m)
	return Term{S: fmt.Sprintf("(_ bv%s %d)", u.String(), w), Sort: bvSort(w), C: u}
}

// sortOf maps a Go scalar type to an SMT sort; ok=false for non-scalars.
func sortOf(t types.Type) (string, bool) {
	switch u := t.Underlying().(type) {
	case *types.Basic:
		switch u.Kind() {
		case types.Bool, types.UntypedBool:
			return "Bool", true
		case types.Int, types.UntypedInt:
			return ISort(), true
		case types.Int8, types.Uint8:
			return bvSort(8), true
		case types.Int16, types.Uint16:
			return bvSort(16), true
		case types.Int32, types.Uint32:
			return bvSort(32), true
		case types.Int64, types.Uint64, types.Uint, types.Uintptr:
			return bvSort(64), true
		case types.String:
			return "Str", true
		case types.UnsafePointer:
			return "Ref", true
		case types.Float32, types.Float64, types.UntypedFloat, types.Complex64, types.Complex128:
			return "F64", true // floating point is outside the subset: values can be stored and moved, not computed with
		}
	case *types.Pointer:
		return "Ref", true
	}
	return "", false
}

func isSigned(t types.Type) bool {
	if b, ok := t.Underlying().(*types.Basic); ok {
		return b.Info()&types.IsUnsigned == 0
	}
	return false
}

func app(op string, sort string, args ...Term) Term {
	ss := make([]string, len(args))
	for i, a := range args {
		ss[i] = a.S
	}
	return Term{S: "(" + op + " " + strings.Join(ss, " ") + ")", Sort: sort, C: nil}
}

func not(a Term) Term {
	if a.C != nil {
		return boolT(a.C.Sign() == 0)
	}
	return app("not", "Bool", a)
}

func and(as ...Term) Term {
	var r []Term
	for _, a := range as {
		if a.C != nil {
			if a.C.Sign() == 0 {
				return boolT(false)
			}
			continue
		}
		r = append(r, a)
	}
	if len(r) == 0 {
		return boolT(true)
	}
	if len(r) == 1 {
		return r[0]
	}
	t := app("and", "Bool", r...)
	andTable[t.S] = r
	return t
}

func or(as ...Term) Term {
	var r []Term
	for _, a := range as {
		if a.C != nil {
			if a.C.Sign() != 0 {
				return boolT(true)
			}
			continue
		}
		r = append(r, a)
	}
	if len(r) == 0 {
		return boolT(false)
	}
	if len(r) == 1 {
		return r[0]
	}
	return app("or", "Bool", r...)
}

func implies(a, b Term) Term { return or(not(a), b) }

func ite(c, a, b Term) Term {
	if c.C != nil {
		if c.C.Sign() != 0 {
			return a
		}
		return b
	}
	return app("ite", a.Sort, c, a, b)
}

func eq(a, b Term) Term {
	if a.C != nil && b.C != nil {
		return boolT(a.C.Cmp(b.C) == 0)
	}
	if a.S == b.S {
		return boolT(true)
	}
	t := app("=", "Bool", a, b)
	eqTable[t.S] = [2]Term{a, b}
	return t
}

var eqTable = map[string][2]Term{}

func zeroOf(sort string) Term {
	switch {
	case sort == "Bool":
		return boolT(false)
	case sort == "Int":
		return Term{S: "0", Sort: "Int", C: big.NewInt(0)}
	case sort == "Ref":
		return refT(0)
	case strings.HasPrefix(sort, "(_ BitVec"):
		return bvT(big.NewInt(0), bvWidth(sort))
	case sort == "Str":
		return Term{S: "str!empty", Sort: "Str", C: nil}
	case sort == "F64":
		return Term{S: "f64.zero", Sort: "F64", C: nil}
	}
	panic("zeroOf " + sort)
}

func arrSort(elem string) string { return "(Array " + ISort() + " " + elem + ")" }
func refArrSort(elem string) string { return "(Array Ref " + elem + ")" }

func constArr(elem string) Term {
	return Term{S: "((as const " + arrSort(elem) + ") " + zeroOf(elem).S + ")", Sort: arrSort(elem), C: nil}
}

func sel(a, i Term, elem string) Term { return app("select", elem, a, i) }
func sto(a, i, v Term) Term          { return app("store", a.Sort, a, i, v) }

func signedVal(c *big.Int, w int) *big.Int {
	h := new(big.Int).Lsh(big.NewInt(1), uint(w-1))
	if c.Cmp(h) >= 0 {
		return new(big.Int).Sub(c, new(big.Int).Lsh(big.NewInt(1), uint(w)))
	}
	return c
}

var andTable = map[string][]Term{}
