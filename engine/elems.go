package main

import (
	"strings"
	"fmt"
	"go/types"
)

// Slice elements of any supported type. A scalar element type keeps the original layout
//   M_<sort> : Ref -> (Idx -> sort)
// and an element of struct / slice / pointer / string type is flattened into one such two-level array per leaf
// component, named after the element type and the field path: ME_Message$ID$ref_sl, ME_Message$TTL, ...

type eleaf struct {
	name, sort string
}

func elemPrefix(t types.Type) string {
	if _, ok := sortOf(t); ok {
		if _, isPtr := t.Underlying().(*types.Pointer); !isPtr {
			if b, isB := t.Underlying().(*types.Basic); !isB || b.Kind() != types.String {
				return ""
			}
		}
	}
	if n, ok := t.(*types.Named); ok {
		return "ME_" + n.Obj().Name()
	}
	// an unnamed element type (e.g. a pointer to a type of another package): its printed form has characters that
	// are not legal in an SMT-LIB symbol
	return "ME_" + strings.NewReplacer("*", "ptr_", "/", "_", ".", "_", "-", "_", "[", "_", "]", "_", " ", "", "(", "", ")", "", "{", "", "}", "", ",", "_", ";", "_").Replace(sortTag(t.String()))
}

// elemLeaves lists the leaf arrays of element type t under the given prefix ("" = plain scalar layout).
func elemLeaves(t types.Type, prefix string) []eleaf {
	switch u := t.Underlying().(type) {
	case *types.Basic:
		so, ok := sortOf(t)
		if !ok {
			panic("unsupported element type " + t.String())
		}
		if prefix == "" {
			return []eleaf{{"M_" + sortTag(so), so}}
		}
		return []eleaf{{prefix, so}}
	case *types.Pointer:
		return []eleaf{{prefix + "$ptr", "Ref"}}
	case *types.Interface:
		return []eleaf{{prefix + "$dyn", "Ref"}}
	case *types.Map:
		return []eleaf{{prefix + "$map", "Ref"}}
	case *types.Slice:
		return []eleaf{{prefix + "$ref_sl", "Ref"}, {prefix + "$off_sl", ISort()}, {prefix + "$len_sl", ISort()}, {prefix + "$cap_sl", ISort()}}
	case *types.Struct:
		var out []eleaf
		for i := 0; i < u.NumFields(); i++ {
			out = append(out, elemLeaves(u.Field(i).Type(), prefix+"$"+u.Field(i).Name())...)
		}
		return out
	}
	panic("unsupported element type " + t.String())
}

func (e *Engine) leafArr(s *State, l eleaf) Term {
	return e.heapArr(s, l.name, refArrSort(arrSort(l.sort)))
}

func (e *Engine) readLeaf(s *State, l eleaf, ref, idx Term) Term {
	e.leafArr(s, l)
	return e.read2(s, l.name, ref, idx, arrSort(l.sort), l.sort)
}

func (e *Engine) writeLeaf(s *State, l eleaf, ref, idx, v Term) {
	m := e.leafArr(s, l)
	e.hset(s, l.name, e.name(s, sto(m, ref, sto(sel(m, ref, arrSort(l.sort)), idx, v))), HWrite{Ref: ref, Idx: idx, Val: v})
}

// loadElemT reads element idx (absolute index in the backing array ref) of type t.
func (e *Engine) loadElemT(s *State, ref, idx Term, t types.Type, prefix string) Val {
	switch u := t.Underlying().(type) {
	case *types.Basic:
		l := elemLeaves(t, prefix)[0]
		v := e.readLeaf(s, l, ref, idx)
		if l.sort == "Str" {
			return StrV{T: v}
		}
		return v
	case *types.Pointer:
		return e.ptrFromRef(e.wtRef(s, e.readLeaf(s, elemLeaves(t, prefix)[0], ref, idx)), u.Elem())
	case *types.Interface:
		return e.ifaceFromRef(e.wtRef(s, e.readLeaf(s, elemLeaves(t, prefix)[0], ref, idx)))
	case *types.Map:
		return MapV{Ref: e.wtRef(s, e.readLeaf(s, elemLeaves(t, prefix)[0], ref, idx)), K: u.Key(), V: u.Elem()}
	case *types.Slice:
		ls := elemLeaves(t, prefix)
		sv := SliceV{e.wtRef(s, e.readLeaf(s, ls[0], ref, idx)), e.readLeaf(s, ls[1], ref, idx), e.readLeaf(s, ls[2], ref, idx), e.readLeaf(s, ls[3], ref, idx), u.Elem()}
		e.sliceWF(s, sv)
		return sv
	case *types.Struct:
		sv := StructV{T: u}
		for i := 0; i < u.NumFields(); i++ {
			sv.F = append(sv.F, e.loadElemT(s, ref, idx, u.Field(i).Type(), prefix+"$"+u.Field(i).Name()))
		}
		return sv
	}
	panic("unsupported element type " + t.String())
}

func (e *Engine) storeElemT(s *State, ref, idx Term, t types.Type, prefix string, v Val) {
	switch u := t.Underlying().(type) {
	case *types.Basic:
		l := elemLeaves(t, prefix)[0]
		var vt Term
		if sv, ok := v.(StrV); ok {
			vt = e.strTerm(s, sv)
		} else {
			vt = v.(Term)
		}
		e.writeLeaf(s, l, ref, idx, vt)
	case *types.Pointer:
		p := v.(PtrV)
		r := refT(0)
		if !p.Nil {
			if p.Kind == "cell" || len(p.Path) > 0 {
				panic("storing an interior/cell pointer into a slice element is unsupported")
			}
			r = p.Ref
		}
		e.writeLeaf(s, elemLeaves(t, prefix)[0], ref, idx, r)
	case *types.Interface:
		e.writeLeaf(s, elemLeaves(t, prefix)[0], ref, idx, e.ifaceRef(v.(IfaceV)))
	case *types.Map:
		e.writeLeaf(s, elemLeaves(t, prefix)[0], ref, idx, v.(MapV).Ref)
	case *types.Slice:
		ls := elemLeaves(t, prefix)
		sv := v.(SliceV)
		for i, x := range []Term{sv.Ref, sv.Off, sv.Len, sv.Cap} {
			e.writeLeaf(s, ls[i], ref, idx, x)
		}
	case *types.Struct:
		for i := 0; i < u.NumFields(); i++ {
			e.storeElemT(s, ref, idx, u.Field(i).Type(), prefix+"$"+u.Field(i).Name(), v.(StructV).F[i])
		}
	default:
		panic(fmt.Sprintf("unsupported element type %s", t))
	}
}

// pathElem descends a field path inside an element type, returning the component's type and leaf prefix.
func pathElem(t types.Type, prefix string, path []Sel) (types.Type, string, []Sel) {
	for len(path) > 0 {
		st, ok := t.Underlying().(*types.Struct)
		if !ok || path[0].Field < 0 {
			break
		}
		f := st.Field(path[0].Field)
		t, prefix = f.Type(), prefix+"$"+f.Name()
		path = path[1:]
	}
	return t, prefix, path
}
