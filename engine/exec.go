package main

import (
	"time"
	"os"
	"sync"
	"bufio"
	"io"
	"os/exec"
	"regexp"
	"fmt"
	"go/constant"
	"go/token"
	"go/types"
	"math/big"
	"sort"
	"strings"

	"golang.org/x/tools/go/ssa"
)

type Frame struct {
	fn     *ssa.Function
	env    map[ssa.Value]Val
	block  *ssa.BasicBlock
	prev   *ssa.BasicBlock
	idx    int
	call   ssa.Value // call instruction in the caller awaiting the result
	visits map[*ssa.BasicBlock]int
	entry  map[string]Val // snapshot of parameters at entry (for old_x)
	cut    bool           // frame is a top-level function under contract (loops may be cut)
	defers    []*deferred
	deferArgs []Val
	deferRecv Val
	deferRet  bool
}

type deferred struct {
	cc   *ssa.CallCommon
	args []Val
	recv Val
}

// TraceEv is one effectful call to code outside the verified functions (an interface method of unknown
// implementation or a stubbed dependency), recorded in order: the ghost `$trace` of DESIGN 2.5.
type TraceEv struct {
	Name    string
	Args    []Val
	Results []Val
}

type State struct {
	frames []*Frame
	cellv  map[*Cell]Val
	heap   map[string]Term
	hlog   map[string]*HLog
	iters  map[ssa.Value]IterV
	entryHeap map[string]Term
	entryLog  map[string]*HLog
	alloc  Term
	pc     []Term
	pcB    []bool // parallel to pc: true = branch decision, false = assumption
	defs   []string
	subst  map[string]*big.Int
	ret    []Val
	done   bool
	dead   bool
	epoch  int
	qfacts  []Term // well-typedness facts about terms that mention a bound variable (consumed by the quantifier)
	lframes []loopFrame
	trace  []TraceEv
	wt     map[string]bool // references whose well-typedness fact is already on the path
	spec   int // >0: evaluating specification code (no obligations, calls merged)
	quant  int // >0: inside quantifier body, do not name terms
}

func (s *State) clone() *State {
	n := &State{alloc: s.alloc, ret: s.ret, done: s.done, dead: s.dead, quant: s.quant, epoch: s.epoch, spec: s.spec}
	n.frames = make([]*Frame, len(s.frames))
	for i, f := range s.frames {
		g := *f
		g.env = make(map[ssa.Value]Val, len(f.env))
		for k, v := range f.env {
			g.env[k] = v
		}
		g.entry = make(map[string]Val, len(f.entry))
		for k, v := range f.entry {
			g.entry[k] = v
		}
		g.visits = make(map[*ssa.BasicBlock]int, len(f.visits))
		for k, v := range f.visits {
			g.visits[k] = v
		}
		n.frames[i] = &g
	}
	n.cellv = make(map[*Cell]Val, len(s.cellv))
	for k, v := range s.cellv {
		n.cellv[k] = v
	}
	n.heap = make(map[string]Term, len(s.heap))
	for k, v := range s.heap {
		n.heap[k] = v
	}
	n.entryHeap, n.entryLog = s.entryHeap, s.entryLog
	n.iters = make(map[ssa.Value]IterV, len(s.iters))
	for k, v := range s.iters {
		n.iters[k] = v
	}
	n.hlog = make(map[string]*HLog, len(s.hlog))
	for k, v := range s.hlog {
		n.hlog[k] = &HLog{Base: v.Base, W: append([]HWrite(nil), v.W...)}
	}
	n.subst = make(map[string]*big.Int, len(s.subst))
	for k, v := range s.subst {
		n.subst[k] = v
	}
	if s.wt != nil {
		n.wt = make(map[string]bool, len(s.wt))
		for k := range s.wt {
			n.wt[k] = true
		}
	}
	n.lframes = s.lframes
	n.qfacts = append([]Term(nil), s.qfacts...)
	n.trace = append([]TraceEv(nil), s.trace...)
	n.pc = append([]Term(nil), s.pc...)
	n.pcB = append([]bool(nil), s.pcB...)
	n.defs = append([]string(nil), s.defs...)
	return n
}

type Engine struct {
	prog    *ssa.Program
	pkgs    []*ssa.Package
	n       int
	obs     []*Oblig
	loops   map[string]map[int]*LoopAnn // fn name -> ordinal -> ann
	curFn   string
	errs    []string
	paths   int
	heapSorts map[string]string
	defOf     map[string]Term
	memo      map[string]string
	pending   []*State
	prune     bool
	par       bool
	mu        sync.Mutex
	workers   int
	opaque    map[string]bool
	funcs     []FuncV
	boxed     map[int64]IfaceV
	boxedByRef map[string]IfaceV
	sess      *session
	fchecks   int
	curT      *Target
	curRun    *TargetRun
	all       map[string]*ssa.Function
	siteOrd   map[ssa.Instruction]int
	inlined   map[string]bool
	stubsUsed map[string]bool
	pathSeq   int
	curInstr  ssa.Instruction
	curFrame  *Frame
	typeIDs   map[string]int
	contracts map[string]*Contract
	ifaceAll map[string][]*Contract // assumed contracts on interface methods / externals / excluded functions, by full name; one per contract package
	loopsFor map[string]*LoopAnn  // loop annotations scoped to one target
	globals   []*GlobalInv
	specPaths int
	capVal    map[string]Val
	boundedLoops map[string]bool
	pureFn       map[*ssa.Function]bool
	rebound      map[string]bool
	genDeadline  time.Time
	safetyOff    map[string]bool
	globalNames map[int64]string
	opaqueT   map[string]bool // spec functions kept uninterpreted while the current target is verified
	heapTouch int
	pure      map[string]*pureMemo
	pathBase  int
	modularUsed map[string]bool
}

func (e *Engine) fresh(prefix string) string { e.n++; return fmt.Sprintf("%s!%d", prefix, e.n) }

func (e *Engine) declare(s *State, prefix, sort string) Term {
	nm := e.fresh(prefix)
	s.defs = append(s.defs, fmt.Sprintf("(declare-const %s %s)", nm, sort))
	return Term{S: nm, Sort: sort, C: nil}
}

// name gives a (large) term a name to keep sharing.
func (e *Engine) name(s *State, t Term) Term {
	if t.C != nil || len(t.S) < 48 || s.quant > 0 {
		return t
	}
	if e.defOf == nil {
		e.defOf = map[string]Term{}
		e.memo = map[string]string{}
	}
	key := t.Sort + "|" + t.S
	nm, hit := e.memo[key]
	if !hit {
		nm = e.fresh("v")
		e.memo[key] = nm
		e.defOf[nm] = t
	}
	s.defs = append(s.defs, fmt.Sprintf("(define-fun %s () %s %s)", nm, t.Sort, t.S))
	r := Term{S: nm, Sort: t.Sort}
	if sg, ok := segTable[t.S]; ok {
		segTable[nm] = sg
	}
	if t.Base != "" {
		r.Base, r.Off = t.Base, t.Off
	}
	return r
}

// axiom attaches a defining (quantified) fact to a freshly declared constant: it travels with the declaration,
// so a VC contains it only when the constant is in the cone of influence of the goal or of the path list.
func (e *Engine) axiom(s *State, c Term, ax Term) {
	for i := len(s.defs) - 1; i >= 0; i-- {
		if strings.HasPrefix(s.defs[i], "(declare-const "+c.S+" ") {
			s.defs[i] += " (assert " + ax.S + ")"
			return
		}
	}
	e.assume(s, ax)
}

func (e *Engine) assume(s *State, t Term) {
	if t.C != nil && t.C.Sign() != 0 {
		return
	}
	s.pc = append(s.pc, t)
	s.pcB = append(s.pcB, false)
	if s.quant == 0 {
		e.learn(s, t) // an assumed equality var = const is propagated along the path
	}
}

func (e *Engine) branch(s *State, t Term) {
	if t.C != nil && t.C.Sign() != 0 {
		return
	}
	s.pc = append(s.pc, t)
	s.pcB = append(s.pcB, true)
}

func (s *State) res(t Term) Term {
	if t.C == nil {
		if c, ok := s.subst[t.S]; ok {
			if t.Sort == "Int" {
				return intBig(c)
			}
			if w := bvWidth(t.Sort); w > 0 {
				return bvT(c, w)
			}
		}
	}
	return t
}

func (e *Engine) oblig(s *State, name string, cond Term) {
	if s.spec > 0 {
		return
	}
	if strings.HasPrefix(name, "safe.") && e.curInstr != nil {
		name += e.site(e.curInstr)
	}
	if strings.HasPrefix(name, "safe.") && e.curT != nil && !e.curT.D.Safety {
		// safety=off: the contract speaks about normal returns only (a run-time panic of this function is tolerated
		// by design - stated in the evidence); the path continues under the assumption that the site did not panic
		e.assume(s, cond)
		if e.safetyOff == nil {
			e.safetyOff = map[string]bool{}
		}
		e.safetyOff[e.curT.Short] = true
		return
	}
	full := e.curFn + "#" + name
	for _, p := range s.pc {
		if p.S == cond.S {
			cond = boolT(true) // already established on this path
			break
		}
	}
	bounded := e.curT != nil && e.curT.D.Kind == "bounded"
	if cond.C != nil && cond.C.Sign() != 0 {
		e.obs = append(e.obs, &Oblig{T: e.curT, Name: full, Triv: true, Result: "unsat", Expect: "unsat", Bounded: bounded, run: e.curRun})
		return
	}
	var b strings.Builder
	b.WriteString(e.script(s, cond))
	if e.curT != nil && hasArg(e.curT.D, "qinst") { // ground instances of quantified hypotheses at the goal's Skolem constants
		roots := []string{cond.S}
		var pcs []string
		for _, p := range s.pc {
			roots = append(roots, p.S)
			pcs = append(pcs, p.S)
		}
		b.WriteString(addInstances(coneDefs(s.defs, roots), pcs, cond.S, 1<<20))
	}
	b.WriteString("(assert (not " + cond.S + "))\n(check-sat)\n")
	e.obs = append(e.obs, &Oblig{T: e.curT, Name: full, Script: b.String(), Expect: "unsat", Bounded: bounded, run: e.curRun, st: s, npc: len(s.pc), cond: cond})
	// after checking, the condition may be assumed on this path (standard)
	e.assume(s, cond)
}

// site names a safety obligation after the function it sits in and its ordinal among the instructions of the
// same kind in that function (stable under edits elsewhere).
func (e *Engine) site(in ssa.Instruction) string {
	fn := in.Parent()
	if _, ok := e.siteOrd[in]; !ok {
		cnt := map[string]int{}
		for _, b := range fn.Blocks {
			for _, x := range b.Instrs {
				k := fmt.Sprintf("%T", x)
				e.siteOrd[x] = cnt[k]
				cnt[k]++
			}
		}
	}
	return fmt.Sprintf("@%s[%d]", shortName(fn.String()), e.siteOrd[in])
}

var symRe = regexp.MustCompile(`[A-Za-z_$][A-Za-z0-9_$.!]*`)

const prelude = "(set-logic ALL)\n(declare-sort Str 0)\n(declare-sort F64 0)\n(declare-const f64.zero F64)\n(define-sort Ref () Int)\n" + strPrelude

// ---------- heap ----------

func sortTag(sort string) string {
	r := strings.NewReplacer("(", "", ")", "", " ", "", "_", "")
	return r.Replace(sort)
}

func (e *Engine) heapArr(s *State, name, sort string) Term {
	e.heapTouch++
	if t, ok := s.heap[name]; ok {
		return t
	}
	// initial (entry) version: symbolic. An array first touched after loops were cut is the entry version
	// pushed through the frames of those loops (it was never written before them).
	nm := fmt.Sprintf("%s!e0", name)
	s.defs = append(s.defs, fmt.Sprintf("(declare-const %s %s)", nm, sort))
	t := Term{S: nm, Sort: sort, C: nil}
	s.heap[name] = t
	e.heapSorts[name] = sort
	if s.hlog == nil {
		s.hlog = map[string]*HLog{}
	}
	s.hlog[name] = &HLog{Base: t}
	if s.entryHeap != nil {
		if _, ok := s.entryHeap[name]; !ok {
			s.entryHeap[name] = t
			s.entryLog[name] = &HLog{Base: t}
		}
	}
	e.mapValWT(s, name, t, Term{S: "alloc!0", Sort: "(Array Int Bool)"})
	for _, lf := range s.lframes {
		e.havocHeapArr(s, name, lf)
	}
	t = s.heap[name]
	return t
}

type HWrite struct {
	Ref, Idx, Val, After Term
	Whole                bool // Val is the whole inner array stored at Ref
}

type HLog struct {
	Base Term
	W    []HWrite
}

// hset installs a new materialised term for heap array nm and logs the write.
func (e *Engine) hset(s *State, nm string, after Term, w HWrite) {
	s.heap[nm] = after
	w.After = after
	if l := s.hlog[nm]; l != nil {
		l.W = append(l.W, w)
	}
}

// read2 resolves select(select(M, ref), idx) against the write log where syntactically possible.
func (e *Engine) read2(s *State, nm string, ref, idx Term, inner, so string) Term {
	l := s.hlog[nm]
	cur := s.heap[nm]
	if l != nil {
		for i := len(l.W) - 1; i >= 0; i-- {
			w := l.W[i]
			if w.Whole {
				if sameTerm(w.Ref, ref) {
					return e.name(s, sel(w.Val, idx, so))
				}
				if distinctRef(w.Ref, ref) {
					continue
				}
				return e.name(s, sel(sel(w.After, ref, inner), idx, so))
			}
			if sameTerm(w.Ref, ref) && sameTerm(w.Idx, idx) {
				return w.Val
			}
			if distinctRef(w.Ref, ref) || (sameTerm(w.Ref, ref) && distinctIdx(w.Idx, idx)) {
				continue
			}
			return e.name(s, sel(sel(w.After, ref, inner), idx, so))
		}
		cur = l.Base
	}
	return e.name(s, sel(sel(cur, ref, inner), idx, so))
}

// read1 resolves select(A, ref) for one-level per-object arrays.
func (e *Engine) read1(s *State, nm string, ref Term, so string) Term {
	l := s.hlog[nm]
	cur := s.heap[nm]
	if l != nil {
		for i := len(l.W) - 1; i >= 0; i-- {
			w := l.W[i]
			if sameTerm(w.Ref, ref) {
				return w.Val
			}
			if distinctRef(w.Ref, ref) {
				continue
			}
			return e.name(s, sel(w.After, ref, so))
		}
		cur = l.Base
	}
	return e.name(s, sel(cur, ref, so))
}

func (e *Engine) newRef(s *State) Term {
	r := e.declare(s, "ref", "Ref")
	e.assume(s, refPos(r))
	e.assume(s, not(sel(s.alloc, r, "Bool")))
	s.alloc = e.name(s, sto(s.alloc, r, boolT(true)))
	return r
}

// mapValWT attaches to a (symbolic) version of a map-value component holding references the fact that every
// stored reference is nil or allocated. Specifications quantify over all keys of a map, so this one
// well-typedness fact has to be quantified too; it travels with the array's declaration.
func (e *Engine) mapValWT(s *State, name string, arr Term, alloc Term) {
	if !(strings.HasPrefix(name, "MP_") && (strings.HasSuffix(name, "$v_ptr") || strings.HasSuffix(name, "$v_ref") || strings.HasSuffix(name, "$v_dyn"))) {
		return
	}
	sort := e.heapSorts[name]
	ks := sort[len("(Array Ref (Array ") : len(sort)-len(" Ref))")]
	e.axiom(s, arr, Term{S: fmt.Sprintf("(forall ((m!w Ref) (k!w %s)) (! (or (<= (select (select %s m!w) k!w) 0) (select %s (select (select %s m!w) k!w))) :pattern ((select (select %s m!w) k!w))))", ks, arr.S, alloc.S, arr.S, arr.S), Sort: "Bool"})
}

// wtRef assumes the well-typedness of a reference read from the heap: it is nil or an allocated object. This
// holds in every Go execution (the allocation map only grows); instantiating it at the loads keeps the VCs ground.
func (e *Engine) wtRef(s *State, r Term) Term {
	if r.C != nil || strings.HasPrefix(r.S, "ref!") {
		return r
	}
	if s.quant > 0 {
		return r // under a binder: map-valued references are covered by the quantified axiom of their array
	}
	if s.wt == nil {
		s.wt = map[string]bool{}
	}
	if s.wt[r.S] {
		return r
	}
	s.wt[r.S] = true
	al := s.alloc
	if e.entryRead(r) {
		// a reference read from the ENTRY version of a heap array was allocated when the function was entered (not
		// merely "by now"): it cannot be an object this execution allocated later
		al = Term{S: "alloc!0", Sort: "(Array Int Bool)"}
	}
	e.assume(s, or(app("<=", "Bool", r, refT(0)), sel(al, r, "Bool")))
	return r
}

var entryReadRe = regexp.MustCompile(`^\(select (\(select )?[^ ()]+!e0 `)

func (e *Engine) entryRead(r Term) bool {
	t := r
	if d, ok := e.defOf[r.S]; ok {
		t = d
	}
	return entryReadRe.MatchString(t.S)
}

func elemSort(t types.Type) string {
	so, ok := sortOf(t)
	if _, isI := t.Underlying().(*types.Interface); isI && !ok {
		return "Ref" // an interface element is kept by the identity of its dynamic value
	}
	if !ok {
		panic(fmt.Sprintf("unsupported element type %s", t))
	}
	return so
}

func (e *Engine) loadElem(s *State, ref, idx Term, et types.Type) Term {
	so := elemSort(et)
	e.heapArr(s, "M_"+sortTag(so), refArrSort(arrSort(so)))
	return e.read2(s, "M_"+sortTag(so), ref, idx, arrSort(so), so)
}

func (e *Engine) storeElem(s *State, ref, idx Term, et types.Type, v Term) {
	so := elemSort(et)
	nm := "M_" + sortTag(so)
	m := e.heapArr(s, nm, refArrSort(arrSort(so)))
	e.hset(s, nm, e.name(s, sto(m, ref, sto(sel(m, ref, arrSort(so)), idx, v))), HWrite{Ref: ref, Idx: idx, Val: v})
}

// ---------- values ----------

func (e *Engine) zero(s *State, t types.Type) Val {
	if vt := atomicValT(t); vt != nil {
		return AtomV{V: e.zero(s, vt)}
	}
	switch u := t.Underlying().(type) {
	case *types.Basic:
		if u.Kind() == types.String {
			z := ""
			return StrV{Const: &z}
		}
		so, _ := sortOf(t)
		return zeroOf(so)
	case *types.Pointer:
		return PtrV{Nil: true}
	case *types.Slice:
		return SliceV{refT(0), intT(0), intT(0), intT(0), u.Elem()}
	case *types.Array:
		return ArrV{constArr(elemSort(u.Elem())), u.Len(), u.Elem()}
	case *types.Struct:
		sv := StructV{T: u}
		for i := 0; i < u.NumFields(); i++ {
			sv.F = append(sv.F, e.zero(s, u.Field(i).Type()))
		}
		return sv
	case *types.Interface:
		return IfaceV{IsNil: boolT(true)}
	case *types.Signature:
		return FuncV{}
	case *types.Map:
		return MapV{Ref: refT(0), K: u.Key(), V: u.Elem()}
	case *types.Chan:
		return refT(0)
	}
	panic(fmt.Sprintf("zero: unsupported type %s", t))
}

// symbolic creates an unconstrained value of type t (for parameters).
func (e *Engine) symbolic(s *State, name string, t types.Type) Val {
	if vt := atomicValT(t); vt != nil {
		return AtomV{V: e.symbolic(s, name+".v", vt)}
	}
	switch u := t.Underlying().(type) {
	case *types.Basic:
		so, ok := sortOf(t)
		if !ok {
			panic("symbolic basic " + t.String())
		}
		if so == "Str" {
			return StrV{T: e.declare(s, name, "Str")}
		}
		return e.declare(s, name, so)
	case *types.Slice:
		v := SliceV{e.declare(s, name+".ref", "Ref"), e.declare(s, name+".off", ISort()), e.declare(s, name+".len", ISort()), e.declare(s, name+".cap", ISort()), u.Elem()}
		lim := intBig(new(big.Int).Lsh(big.NewInt(1), 40)) // no object is larger than 2^40 elements (address space)
		e.assume(s, and(ile(intT(0), v.Off), ile(intT(0), v.Len), ile(v.Len, v.Cap), ile(v.Off, lim), ile(v.Cap, lim), app(">=", "Bool", v.Ref, refT(0))))
		e.assume(s, or(refPos(v.Ref), eq(v.Cap, intT(0))))
		e.assume(s, implies(refPos(v.Ref), sel(s.alloc, v.Ref, "Bool")))
		return v
	case *types.Pointer:
		r := e.declare(s, name, "Ref")
		e.assume(s, app(">=", "Bool", r, refT(0)))
		e.assume(s, implies(refPos(r), sel(s.alloc, r, "Bool")))
		return e.ptrFromRef(r, u.Elem())
	case *types.Array:
		return ArrV{e.declare(s, name, arrSort(elemSort(u.Elem()))), u.Len(), u.Elem()}
	case *types.Struct:
		sv := StructV{T: u}
		for i := 0; i < u.NumFields(); i++ {
			sv.F = append(sv.F, e.symbolic(s, name+"."+u.Field(i).Name(), u.Field(i).Type()))
		}
		return sv
	case *types.Interface:
		r := e.declare(s, name+".dyn", "Ref")
		e.assume(s, app(">=", "Bool", r, refT(0)))
		e.assume(s, implies(refPos(r), sel(s.alloc, r, "Bool")))
		return IfaceV{IsNil: eq(r, refT(0)), V: r, Static: t}
	case *types.Map:
		r := e.declare(s, name, "Ref")
		e.assume(s, app(">=", "Bool", r, refT(0)))
		e.assume(s, implies(refPos(r), sel(s.alloc, r, "Bool")))
		return MapV{Ref: r, K: u.Key(), V: u.Elem()}
	case *types.Signature: // a function value of unknown identity (possibly nil is not modelled: calling it is recorded)
		return FuncV{Unknown: name, Sig: u}
	case *types.Chan:
		return e.declare(s, name, "Ref")
	}
	panic(fmt.Sprintf("symbolic: unsupported type %s", t))
}

func (e *Engine) ptrFromRef(r Term, elem types.Type) PtrV {
	switch u := elem.Underlying().(type) {
	case *types.Struct:
		n, _ := elem.(*types.Named)
		return PtrV{Kind: "struct", Ref: r, Struc: n, StT: u}
	case *types.Array:
		return PtrV{Kind: "arr", Ref: r, N: u.Len(), Elem: u.Elem()}
	default:
		return PtrV{Kind: "hcell", Ref: r, Elem: elem}
	}
}

func structName(p PtrV) string {
	if p.Struc != nil {
		return p.Struc.Obj().Name()
	}
	return "anon"
}

// ---------- locations: load / store ----------

func getPath(v Val, path []Sel, e *Engine, s *State) Val {
	for _, p := range path {
		switch x := v.(type) {
		case StructV:
			v = x.F[p.Field]
		case ArrV:
			v = e.name(s, sel(x.A, *p.Idx, elemSort(x.Elem)))
		default:
			panic(fmt.Sprintf("getPath on %T", v))
		}
	}
	return v
}

func setPath(v Val, path []Sel, nv Val, e *Engine, s *State) Val {
	if len(path) == 0 {
		return nv
	}
	p := path[0]
	switch x := v.(type) {
	case StructV:
		f := append([]Val(nil), x.F...)
		f[p.Field] = setPath(f[p.Field], path[1:], nv, e, s)
		return StructV{F: f, T: x.T}
	case ArrV:
		if len(path) != 1 {
			panic("nested array path")
		}
		return ArrV{e.name(s, sto(x.A, *p.Idx, nv.(Term))), x.N, x.Elem}
	}
	panic(fmt.Sprintf("setPath on %T", v))
}

func (e *Engine) fieldHeapName(p PtrV, fi int) (string, types.Type) {
	f := p.StT.Field(fi)
	return "F_" + structName(p) + "_" + f.Name(), f.Type()
}

func (e *Engine) nonNil(s *State, p PtrV, what string) {
	if p.Nil {
		e.oblig(s, "safe.nil:"+what, boolT(false))
		return
	}
	if p.Kind != "cell" && p.Kind != "elem" { // an element pointer passed a bounds check: len > 0 implies non-nil
		e.oblig(s, "safe.nil:"+what, not(eq(p.Ref, refT(0))))
	}
}

func (e *Engine) load(s *State, p PtrV, t types.Type) Val {
	e.nonNil(s, p, "load")
	switch p.Kind {
	case "cell":
		return getPath(s.cellv[p.Cell], p.Path, e, s)
	case "elem":
		et, pre, rest := pathElem(p.Elem, elemPrefix(p.Elem), p.Path)
		return getPath(e.loadElemT(s, p.Ref, p.Idx, et, pre), rest, e, s)
	case "arr":
		so := elemSort(p.Elem)
		m := e.heapArr(s, "M_"+sortTag(so), refArrSort(arrSort(so)))
		return ArrV{e.name(s, sel(m, p.Ref, arrSort(so))), p.N, p.Elem}
	case "hcell":
		if pt, isP := p.Elem.Underlying().(*types.Pointer); isP && p.Ref.C != nil && p.Ref.C.Sign() < 0 && strings.HasPrefix(e.globalNames[p.Ref.C.Int64()], "Err") {
			// a package-level *Error value (errors.ErrUnauthorized, ...): initialised at declaration, never
			// reassigned (assumption, listed) - a non-nil object with an identity of its own
			return e.ptrFromRef(refT(p.Ref.C.Int64()-2000006), pt.Elem())
		}
		if _, isI := p.Elem.Underlying().(*types.Interface); isI {
			if p.Ref.C != nil && p.Ref.C.Sign() < 0 {
				return IfaceV{IsNil: boolT(false), V: p.Ref} // package-level error value (assumed initialised, never reassigned): its identity is the variable's
			}
			return IfaceV{IsNil: e.name(s, sel(e.heapArr(s, "C_iface_isnil", refArrSort("Bool")), p.Ref, "Bool"))}
		}
		return e.loadHeapVal(s, "C", p.Ref, p.Elem)
	case "struct":
		if len(p.Path) == 0 {
			sv := StructV{T: p.StT}
			for i := 0; i < p.StT.NumFields(); i++ {
				nm, ft := e.fieldHeapName(p, i)
				sv.F = append(sv.F, e.loadHeapVal(s, nm, p.Ref, ft))
			}
			return sv
		}
		nm, ft := e.fieldHeapName(p, p.Path[0].Field)
		v := e.loadHeapVal(s, nm, p.Ref, ft)
		return getPath(v, p.Path[1:], e, s)
	}
	panic("load kind " + p.Kind)
}

// loadHeapVal reads a value of type t stored per-ref under heap name prefix nm.
func (e *Engine) loadHeapVal(s *State, nm string, ref Term, t types.Type) Val {
	if vt := atomicValT(t); vt != nil {
		return AtomV{V: e.loadHeapVal(s, nm+"$v", ref, vt)}
	}
	switch u := t.Underlying().(type) {
	case *types.Slice:
		g := func(c string) Term {
			so := ISort()
			if c == "ref" {
				so = "Ref"
			}
			e.heapArr(s, nm+"$"+c+"_sl", refArrSort(so))
			return e.read1(s, nm+"$"+c+"_sl", ref, so)
		}
		sv := SliceV{e.wtRef(s, g("ref")), g("off"), g("len"), g("cap"), u.Elem()}
		e.sliceWF(s, sv)
		return sv
	case *types.Array:
		so := elemSort(u.Elem())
		e.heapArr(s, nm+"$arr"+sortTag(so), refArrSort(arrSort(so)))
		return ArrV{e.read1(s, nm+"$arr"+sortTag(so), ref, arrSort(so)), u.Len(), u.Elem()}
	case *types.Pointer:
		e.heapArr(s, nm+"$ptr", refArrSort("Ref"))
		r := e.wtRef(s, e.read1(s, nm+"$ptr", ref, "Ref"))
		return e.ptrFromRef(r, u.Elem())
	case *types.Struct:
		sv := StructV{T: u}
		for i := 0; i < u.NumFields(); i++ {
			sv.F = append(sv.F, e.loadHeapVal(s, nm+"$"+u.Field(i).Name(), ref, u.Field(i).Type()))
		}
		return sv
	case *types.Signature:
		e.heapArr(s, nm+"$fn", refArrSort("Ref"))
		id := s.res(e.read1(s, nm+"$fn", ref, "Ref"))
		if id.C == nil { // a function value this path did not create (e.g. a package-level func variable)
			return FuncV{Unknown: nm, Sig: u}
		}
		if id.C.Sign() == 0 {
			return FuncV{}
		}
		return e.funcs[id.C.Int64()-1]
	case *types.Interface:
		e.heapArr(s, nm+"$dyn", refArrSort("Ref"))
		return e.ifaceFromRef(e.wtRef(s, e.read1(s, nm+"$dyn", ref, "Ref")))
	case *types.Map:
		e.heapArr(s, nm+"$map", refArrSort("Ref"))
		return MapV{Ref: e.wtRef(s, e.read1(s, nm+"$map", ref, "Ref")), K: u.Key(), V: u.Elem()}
	case *types.Chan: // channels are outside the subset: a channel value is only an identity that can be stored and moved
		e.heapArr(s, nm+"$chan", refArrSort("Ref"))
		return e.read1(s, nm+"$chan", ref, "Ref")
	case *types.Basic:
		so, _ := sortOf(t)
		if nm == "C" {
			nm = "C_" + sortTag(so)
		}
		e.heapArr(s, nm, refArrSort(so))
		if so == "Str" {
			return StrV{T: e.read1(s, nm, ref, so)}
		}
		return e.read1(s, nm, ref, so)
	}
	panic(fmt.Sprintf("loadHeapVal: unsupported %s", t))
}

func (e *Engine) storeHeapVal(s *State, nm string, ref Term, t types.Type, v Val) {
	if vt := atomicValT(t); vt != nil {
		e.storeHeapVal(s, nm+"$v", ref, vt, v.(AtomV).V)
		return
	}
	switch u := t.Underlying().(type) {
	case *types.Slice:
		sv := v.(SliceV)
		for c, x := range map[string]Term{"ref": sv.Ref, "off": sv.Off, "len": sv.Len, "cap": sv.Cap} {
			k := nm + "$" + c + "_sl"
			e.hset(s, k, e.name(s, sto(e.heapArr(s, k, refArrSort(x.Sort)), ref, x)), HWrite{Ref: ref, Val: x})
		}
	case *types.Array:
		so := elemSort(u.Elem())
		k := nm + "$arr" + sortTag(so)
		e.hset(s, k, e.name(s, sto(e.heapArr(s, k, refArrSort(arrSort(so))), ref, v.(ArrV).A)), HWrite{Ref: ref, Val: v.(ArrV).A})
	case *types.Pointer:
		k := nm + "$ptr"
		p := v.(PtrV)
		r := refT(0)
		if !p.Nil {
			if p.Kind == "cell" || len(p.Path) > 0 {
				panic("storing interior/cell pointer into heap unsupported")
			}
			r = p.Ref
		}
		e.hset(s, k, e.name(s, sto(e.heapArr(s, k, refArrSort("Ref")), ref, r)), HWrite{Ref: ref, Val: r})
	case *types.Struct:
		for i := 0; i < u.NumFields(); i++ {
			e.storeHeapVal(s, nm+"$"+u.Field(i).Name(), ref, u.Field(i).Type(), v.(StructV).F[i])
		}
	case *types.Signature:
		k := nm + "$fn"
		id := refT(0)
		if fv := v.(FuncV); fv.Fn != nil {
			e.funcs = append(e.funcs, fv)
			id = refT(int64(len(e.funcs)))
		}
		e.hset(s, k, e.name(s, sto(e.heapArr(s, k, refArrSort("Ref")), ref, id)), HWrite{Ref: ref, Val: id})
	case *types.Interface:
		k := nm + "$dyn"
		r := e.ifaceRef(v.(IfaceV))
		e.hset(s, k, e.name(s, sto(e.heapArr(s, k, refArrSort("Ref")), ref, r)), HWrite{Ref: ref, Val: r})
	case *types.Map:
		k := nm + "$map"
		e.hset(s, k, e.name(s, sto(e.heapArr(s, k, refArrSort("Ref")), ref, v.(MapV).Ref)), HWrite{Ref: ref, Val: v.(MapV).Ref})
	case *types.Chan:
		k := nm + "$chan"
		e.hset(s, k, e.name(s, sto(e.heapArr(s, k, refArrSort("Ref")), ref, v.(Term))), HWrite{Ref: ref, Val: v.(Term)})
	case *types.Basic:
		so, _ := sortOf(t)
		if nm == "C" {
			nm = "C_" + sortTag(so)
		}
		var vt Term
		if sv, ok := v.(StrV); ok {
			if sv.Const != nil {
				vt = e.strConst(s, *sv.Const)
			} else {
				vt = sv.T
			}
		} else {
			vt = v.(Term)
		}
		e.hset(s, nm, e.name(s, sto(e.heapArr(s, nm, refArrSort(so)), ref, vt)), HWrite{Ref: ref, Val: vt})
	default:
		panic(fmt.Sprintf("storeHeapVal: unsupported %s", t))
	}
}

func (e *Engine) store(s *State, p PtrV, v Val) {
	e.nonNil(s, p, "store")
	switch p.Kind {
	case "cell":
		s.cellv[p.Cell] = setPath(s.cellv[p.Cell], p.Path, v, e, s)
	case "elem":
		et, pre, rest := pathElem(p.Elem, elemPrefix(p.Elem), p.Path)
		if len(rest) > 0 {
			v = setPath(e.loadElemT(s, p.Ref, p.Idx, et, pre), rest, v, e, s)
		}
		e.storeElemT(s, p.Ref, p.Idx, et, pre, v)
	case "arr":
		so := elemSort(p.Elem)
		nm := "M_" + sortTag(so)
		m := e.heapArr(s, nm, refArrSort(arrSort(so)))
		e.hset(s, nm, e.name(s, sto(m, p.Ref, v.(ArrV).A)), HWrite{Ref: p.Ref, Val: v.(ArrV).A, Whole: true})
	case "hcell":
		e.storeHeapVal(s, "C", p.Ref, p.Elem, v)
	case "struct":
		if len(p.Path) == 0 {
			sv := v.(StructV)
			for i := 0; i < p.StT.NumFields(); i++ {
				nm, ft := e.fieldHeapName(p, i)
				e.storeHeapVal(s, nm, p.Ref, ft, sv.F[i])
			}
			return
		}
		nm, ft := e.fieldHeapName(p, p.Path[0].Field)
		if len(p.Path) == 1 {
			e.storeHeapVal(s, nm, p.Ref, ft, v)
			return
		}
		old := e.loadHeapVal(s, nm, p.Ref, ft)
		e.storeHeapVal(s, nm, p.Ref, ft, setPath(old, p.Path[1:], v, e, s))
	default:
		panic("store kind " + p.Kind)
	}
}

// ---------- constants ----------

func (e *Engine) constVal(s *State, c *ssa.Const) Val {
	t := c.Type()
	if c.Value == nil {
		return e.zero(s, t)
	}
	switch u := t.Underlying().(type) {
	case *types.Basic:
		switch {
		case u.Info()&types.IsBoolean != 0:
			return boolT(constant.BoolVal(c.Value))
		case u.Info()&types.IsString != 0:
			str := constant.StringVal(c.Value)
			return StrV{Const: &str}
		case u.Info()&types.IsInteger != 0:
			bi, _ := new(big.Int).SetString(c.Value.ExactString(), 10)
			so, _ := sortOf(t)
			if so == "Int" {
				return intBig(bi)
			}
			return bvT(bi, bvWidth(so))
		}
	}
	panic(fmt.Sprintf("const: unsupported %s %s", t, c.Value))
}

func (e *Engine) get(s *State, f *Frame, v ssa.Value) Val {
	switch x := v.(type) {
	case *ssa.Const:
		return e.constVal(s, x)
	case *ssa.Global:
		return e.globalPtr(s, x)
	case *ssa.Function:
		return FuncV{Fn: x}
	case *ssa.Builtin:
		return x
	}
	r, ok := f.env[v]
	if !ok {
		panic(fmt.Sprintf("unbound value %s in %s", v.Name(), f.fn))
	}
	if t, ok := r.(Term); ok {
		return s.res(t)
	}
	return r
}

func (e *Engine) globalPtr(s *State, g *ssa.Global) PtrV {
	// globals live at a fixed ref derived from their name; contents in the heap (symbolic at entry)
	et := g.Type().(*types.Pointer).Elem()
	h := int64(0)
	for _, c := range g.String() {
		h = (h*131 + int64(c)) % 1000003
	}
	ref := refT(-(h + 1)) // negative refs: never equal to params (>=0) or fresh (>0)
	if e.globalNames == nil {
		e.globalNames = map[int64]string{}
	}
	e.globalNames[-(h + 1)] = g.Name()
	p := e.ptrFromRef(ref, et)
	return p
}

// ---------- integer ops ----------

func (e *Engine) binop(s *State, op token.Token, x, y Term, xt types.Type) Term {
	x, y = s.res(x), s.res(y)
	if x.Sort == "Bool" {
		switch op {
		case token.EQL:
			return eq(x, y)
		case token.NEQ:
			return not(eq(x, y))
		case token.AND, token.LAND:
			return and(x, y)
		case token.OR, token.LOR:
			return or(x, y)
		}
	}
	if x.Sort == "Int" {
		if x.C != nil && y.C != nil {
			a, b := x.C, y.C
			switch op {
			case token.ADD:
				return intBig(new(big.Int).Add(a, b))
			case token.SUB:
				return intBig(new(big.Int).Sub(a, b))
			case token.MUL:
				return intBig(new(big.Int).Mul(a, b))
			case token.QUO:
				if b.Sign() != 0 {
					return intBig(new(big.Int).Quo(a, b))
				}
			case token.REM:
				if b.Sign() != 0 {
					return intBig(new(big.Int).Rem(a, b))
				}
			case token.LSS:
				return boolT(a.Cmp(b) < 0)
			case token.LEQ:
				return boolT(a.Cmp(b) <= 0)
			case token.GTR:
				return boolT(a.Cmp(b) > 0)
			case token.GEQ:
				return boolT(a.Cmp(b) >= 0)
			case token.EQL:
				return boolT(a.Cmp(b) == 0)
			case token.NEQ:
				return boolT(a.Cmp(b) != 0)
			}
		}
		switch op {
		case token.ADD:
			return iadd(x, y)
		case token.SUB:
			return isub(x, y)
		case token.MUL:
			return app("*", "Int", x, y)
		case token.QUO: // Go truncates toward zero; SMT div floors. Use ite on sign.
			e.oblig(s, "safe.div", not(eq(y, intT(0))))
			q := app("div", "Int", app("abs", "Int", x), app("abs", "Int", y))
			neg := app("xor", "Bool", app("<", "Bool", x, intT(0)), app("<", "Bool", y, intT(0)))
			return ite(neg, app("-", "Int", q), q)
		case token.REM:
			e.oblig(s, "safe.div", not(eq(y, intT(0))))
			r := app("mod", "Int", app("abs", "Int", x), app("abs", "Int", y))
			return ite(app("<", "Bool", x, intT(0)), app("-", "Int", r), r)
		case token.LSS:
			return app("<", "Bool", x, y)
		case token.LEQ:
			return app("<=", "Bool", x, y)
		case token.GTR:
			return app(">", "Bool", x, y)
		case token.GEQ:
			return app(">=", "Bool", x, y)
		case token.EQL:
			return eq(x, y)
		case token.NEQ:
			return not(eq(x, y))
		}
		panic("int op " + op.String())
	}
	w := bvWidth(x.Sort)
	if w == 0 {
		panic("binop on sort " + x.Sort + " op " + op.String())
	}
	signed := isSigned(xt)
	// shifts: y may have a different width or be Int
	if op == token.SHL || op == token.SHR {
		return e.shift(s, op, x, y, w, signed)
	}
	if x.C != nil && y.C != nil {
		a, b := x.C, y.C
		sa, sb := a, b
		if signed {
			sa, sb = signedVal(a, w), signedVal(b, w)
		}
		switch op {
		case token.ADD:
			return bvT(new(big.Int).Add(a, b), w)
		case token.SUB:
			return bvT(new(big.Int).Sub(a, b), w)
		case token.MUL:
			return bvT(new(big.Int).Mul(a, b), w)
		case token.AND:
			return bvT(new(big.Int).And(a, b), w)
		case token.OR:
			return bvT(new(big.Int).Or(a, b), w)
		case token.XOR:
			return bvT(new(big.Int).Xor(a, b), w)
		case token.AND_NOT:
			return bvT(new(big.Int).AndNot(a, b), w)
		case token.QUO:
			if b.Sign() != 0 {
				return bvT(new(big.Int).Quo(sa, sb), w)
			}
		case token.REM:
			if b.Sign() != 0 {
				return bvT(new(big.Int).Rem(sa, sb), w)
			}
		case token.LSS:
			return boolT(sa.Cmp(sb) < 0)
		case token.LEQ:
			return boolT(sa.Cmp(sb) <= 0)
		case token.GTR:
			return boolT(sa.Cmp(sb) > 0)
		case token.GEQ:
			return boolT(sa.Cmp(sb) >= 0)
		case token.EQL:
			return boolT(a.Cmp(b) == 0)
		case token.NEQ:
			return boolT(a.Cmp(b) != 0)
		}
	}
	pick := func(u, sg string) string {
		if signed {
			return sg
		}
		return u
	}
	switch op {
	case token.ADD:
		if w == 64 && signed {
			return iadd(x, y)
		}
		return app("bvadd", x.Sort, x, y)
	case token.SUB:
		if w == 64 && signed {
			return isub(x, y)
		}
		return app("bvsub", x.Sort, x, y)
	case token.MUL:
		return app("bvmul", x.Sort, x, y)
	case token.AND:
		return app("bvand", x.Sort, x, y)
	case token.OR:
		if sa, sb := segsOf(x), segsOf(y); sa != nil && sb != nil {
			if m, ok := orSegs(sa, sb, w); ok {
				return fromSegs(m, w)
			}
		}
		return app("bvor", x.Sort, x, y)
	case token.XOR:
		return app("bvxor", x.Sort, x, y)
	case token.AND_NOT:
		return app("bvand", x.Sort, x, app("bvnot", y.Sort, y))
	case token.QUO:
		e.oblig(s, "safe.div", not(eq(y, bvT(big.NewInt(0), w))))
		return app(pick("bvudiv", "bvsdiv"), x.Sort, x, y)
	case token.REM:
		e.oblig(s, "safe.div", not(eq(y, bvT(big.NewInt(0), w))))
		return app(pick("bvurem", "bvsrem"), x.Sort, x, y)
	case token.LSS:
		return app(pick("bvult", "bvslt"), "Bool", x, y)
	case token.LEQ:
		return app(pick("bvule", "bvsle"), "Bool", x, y)
	case token.GTR:
		return app(pick("bvugt", "bvsgt"), "Bool", x, y)
	case token.GEQ:
		return app(pick("bvuge", "bvsge"), "Bool", x, y)
	case token.EQL:
		return eq(x, y)
	case token.NEQ:
		return not(eq(x, y))
	}
	panic("bv op " + op.String())
}

func (e *Engine) shift(s *State, op token.Token, x, y Term, w int, signed bool) Term {
	// normalise count to Int if constant
	if y.C != nil {
		k := int(y.C.Int64())
		if y.C.BitLen() > 31 || k >= w {
			if op == token.SHR && signed {
				k = w - 1
			} else {
				return bvT(big.NewInt(0), w)
			}
		}
		if x.C != nil {
			if op == token.SHL {
				return bvT(new(big.Int).Lsh(x.C, uint(k)), w)
			}
			if signed {
				return bvT(new(big.Int).Rsh(signedVal(x.C, w), uint(k)), w)
			}
			return bvT(new(big.Int).Rsh(x.C, uint(k)), w)
		}
		if k == 0 {
			return x
		}
		if sg := segsOf(x); sg != nil && !(op == token.SHR && signed) {
			if op == token.SHL {
				return fromSegs(append(takeLow(sg, w-k), Seg{N: k}), w)
			}
			return fromSegs(append([]Seg{{N: k}}, takeHigh(sg, w-k)...), w)
		}
		kt := bvT(big.NewInt(int64(k)), w)
		switch {
		case op == token.SHL:
			return app("bvshl", x.Sort, x, kt)
		case signed:
			return app("bvashr", x.Sort, x, kt)
		default:
			return app("bvlshr", x.Sort, x, kt)
		}
	}
	// symbolic count: bring to width w
	var cnt Term
	yw := bvWidth(y.Sort)
	switch {
	case y.Sort == "Int":
		cnt = Term{S: fmt.Sprintf("((_ int2bv %d) %s)", w, y.S), Sort: bvSort(w), C: nil}
	case yw == w:
		cnt = y
	case yw < w:
		cnt = Term{S: fmt.Sprintf("((_ zero_extend %d) %s)", w-yw, y.S), Sort: bvSort(w), C: nil}
	default:
		// count wider than operand: saturate
		big_ := app("bvuge", "Bool", y, bvT(big.NewInt(int64(w)), yw))
		low := Term{S: fmt.Sprintf("((_ extract %d 0) %s)", w-1, y.S), Sort: bvSort(w), C: nil}
		cnt = ite(big_, bvT(big.NewInt(int64(w)), w), low)
	}
	// SMT-LIB shifts already yield 0 (or sign fill) for counts >= w
	switch {
	case op == token.SHL:
		return app("bvshl", x.Sort, x, cnt)
	case signed:
		return app("bvashr", x.Sort, x, cnt)
	default:
		return app("bvlshr", x.Sort, x, cnt)
	}
}

func (e *Engine) convert(s *State, x Term, from, to types.Type) Term {
	x = s.res(x)
	ts, ok := sortOf(to)
	if !ok {
		panic("convert to " + to.String())
	}
	if x.Sort == ts {
		return x
	}
	fw, tw := bvWidth(x.Sort), bvWidth(ts)
	switch {
	case x.Sort == "Int" && tw > 0:
		if x.C != nil {
			return bvT(x.C, tw)
		}
		return Term{S: fmt.Sprintf("((_ int2bv %d) %s)", tw, x.S), Sort: ts, C: nil}
	case fw > 0 && ts == "Int":
		if x.C != nil {
			if isSigned(from) {
				return intBig(signedVal(x.C, fw))
			}
			return intBig(x.C)
		}
		if isSigned(from) {
			return ite(app("bvslt", "Bool", x, bvT(big.NewInt(0), fw)),
				app("-", "Int", app("bv2nat", "Int", x), intBig(new(big.Int).Lsh(big.NewInt(1), uint(fw)))),
				app("bv2nat", "Int", x))
		}
		return app("bv2nat", "Int", x)
	case fw > 0 && tw > 0:
		if x.C != nil {
			if isSigned(from) {
				return bvT(signedVal(x.C, fw), tw)
			}
			return bvT(x.C, tw)
		}
		if sg := segsOf(x); sg != nil {
			if tw < fw {
				return fromSegs(takeLow(sg, tw), tw)
			}
			if !isSigned(from) {
				return fromSegs(append([]Seg{{N: tw - fw}}, sg...), tw)
			}
		}
		if tw < fw {
			return Term{S: fmt.Sprintf("((_ extract %d 0) %s)", tw-1, x.S), Sort: ts, C: nil}
		}
		ext := "zero_extend"
		if isSigned(from) {
			ext = "sign_extend"
		}
		return Term{S: fmt.Sprintf("((_ %s %d) %s)", ext, tw-fw, x.S), Sort: ts, C: nil}
	}
	panic(fmt.Sprintf("convert %s -> %s", x.Sort, ts))
}

// ---------- helpers for loops ----------

func headersOf(fn *ssa.Function) []*ssa.BasicBlock {
	var hs []*ssa.BasicBlock
	seen := map[*ssa.BasicBlock]bool{}
	for _, b := range fn.Blocks {
		for _, su := range b.Succs {
			if su.Dominates(b) && !seen[su] {
				seen[su] = true
				hs = append(hs, su)
			}
		}
	}
	sort.Slice(hs, func(i, j int) bool { return hs[i].Index < hs[j].Index })
	return hs
}

func loopBlocks(h *ssa.BasicBlock) map[*ssa.BasicBlock]bool {
	body := map[*ssa.BasicBlock]bool{h: true}
	var stack []*ssa.BasicBlock
	for _, p := range h.Preds {
		if h.Dominates(p) {
			stack = append(stack, p)
		}
	}
	for len(stack) > 0 {
		b := stack[len(stack)-1]
		stack = stack[:len(stack)-1]
		if body[b] {
			continue
		}
		body[b] = true
		stack = append(stack, b.Preds...)
	}
	return body
}

// ---------- maps ----------

func arr2(k, v string) string { return "(Array " + k + " " + v + ")" }

func mapTag(m MapV) string {
	ks, _ := sortOf(m.K)
	vs := m.V.String()
	if i := strings.LastIndex(vs, "/"); i >= 0 {
		vs = vs[i+1:]
	}
	return sortTag(ks) + "_" + sortTag(strings.NewReplacer("[", "s", "]", "", "*", "p", ".", "", "-", "").Replace(vs))
}

type mcomp struct{ name, sort string }

// mapLeaves lists the per-key components a map value of type t is flattened into (prefix "v" for the value itself;
// a struct value contributes the leaves of its fields, named v$field...).
func mapLeaves(t types.Type, prefix string) []mcomp {
	switch u := t.Underlying().(type) {
	case *types.Slice:
		return []mcomp{{prefix + "_ref", "Ref"}, {prefix + "_off", ISort()}, {prefix + "_len", ISort()}, {prefix + "_cap", ISort()}}
	case *types.Pointer:
		return []mcomp{{prefix + "_ptr", "Ref"}}
	case *types.Basic:
		so, ok := sortOf(u)
		if !ok {
			panic("map value type unsupported: " + t.String())
		}
		return []mcomp{{prefix, so}}
	case *types.Interface:
		return []mcomp{{prefix + "_dyn", "Ref"}}
	case *types.Map:
		return []mcomp{{prefix + "_map", "Ref"}}
	case *types.Struct:
		var out []mcomp
		for i := 0; i < u.NumFields(); i++ {
			out = append(out, mapLeaves(u.Field(i).Type(), prefix+"$"+u.Field(i).Name())...)
		}
		return out
	}
	panic("map value type unsupported: " + t.String())
}

func mapComps(m MapV) []mcomp { return mapLeaves(m.V, "v") }

func (e *Engine) mread(s *State, m MapV, comp, vsort string, k Term) Term {
	ks, _ := sortOf(m.K)
	nm := "MP_" + mapTag(m) + "$" + comp
	e.heapArr(s, nm, refArrSort(arr2(ks, vsort)))
	return e.read2(s, nm, m.Ref, k, arr2(ks, vsort), vsort)
}

func (e *Engine) mwrite(s *State, m MapV, comp, vsort string, k, v Term) {
	ks, _ := sortOf(m.K)
	nm := "MP_" + mapTag(m) + "$" + comp
	h := e.heapArr(s, nm, refArrSort(arr2(ks, vsort)))
	e.hset(s, nm, e.name(s, sto(h, m.Ref, sto(sel(h, m.Ref, arr2(ks, vsort)), k, v))), HWrite{Ref: m.Ref, Idx: k, Val: v})
}

func (e *Engine) mcard(s *State, m MapV) Term {
	nm := "MP_" + mapTag(m) + "$card"
	e.heapArr(s, nm, refArrSort(ISort()))
	c := e.read1(s, nm, m.Ref, ISort())
	e.assume(s, ile(intT(0), c))
	return c
}

func (e *Engine) msetCard(s *State, m MapV, c Term) {
	nm := "MP_" + mapTag(m) + "$card"
	h := e.heapArr(s, nm, refArrSort(ISort()))
	e.hset(s, nm, e.name(s, sto(h, m.Ref, c)), HWrite{Ref: m.Ref, Val: c})
}

func (e *Engine) mgetVal(s *State, m MapV, k Term) Val { return e.mgetValT(s, m, k, m.V, "v") }

func (e *Engine) mgetValT(s *State, m MapV, k Term, t types.Type, prefix string) Val {
	cs := mapLeaves(t, prefix)
	switch u := t.Underlying().(type) {
	case *types.Slice:
		sv := SliceV{e.wtRef(s, e.mread(s, m, cs[0].name, cs[0].sort, k)), e.mread(s, m, cs[1].name, cs[1].sort, k), e.mread(s, m, cs[2].name, cs[2].sort, k), e.mread(s, m, cs[3].name, cs[3].sort, k), u.Elem()}
		e.sliceWF(s, sv)
		return sv
	case *types.Pointer:
		return e.ptrFromRef(e.wtRef(s, e.mread(s, m, cs[0].name, cs[0].sort, k)), u.Elem())
	case *types.Interface:
		r := e.wtRef(s, e.mread(s, m, cs[0].name, cs[0].sort, k))
		return e.ifaceFromRef(r)
	case *types.Map:
		return MapV{Ref: e.wtRef(s, e.mread(s, m, cs[0].name, cs[0].sort, k)), K: u.Key(), V: u.Elem()}
	case *types.Struct:
		sv := StructV{T: u}
		for i := 0; i < u.NumFields(); i++ {
			sv.F = append(sv.F, e.mgetValT(s, m, k, u.Field(i).Type(), prefix+"$"+u.Field(i).Name()))
		}
		return sv
	default:
		v := e.mread(s, m, cs[0].name, cs[0].sort, k)
		if cs[0].sort == "Str" {
			return StrV{T: v}
		}
		return v
	}
}

// ifaceFromRef rebuilds an interface value from the identity of its dynamic value.
func (e *Engine) ifaceFromRef(r Term) IfaceV {
	if v, ok := e.boxedByRef[r.S]; ok {
		return v
	}
	return IfaceV{IsNil: eq(r, refT(0)), V: r}
}

// ifaceRef gives the identity under which an interface value is stored in the heap.
func (e *Engine) ifaceRef(v IfaceV) Term {
	if v.IsNil.C != nil && v.IsNil.C.Sign() != 0 {
		return refT(0)
	}
	if v.Box.S != "" {
		return v.Box
	}
	switch x := v.V.(type) {
	case Term:
		if x.Sort == "Ref" {
			return x
		}
	case PtrV:
		if x.Nil {
			return refT(0)
		}
		return x.Ref
	}
	panic(fmt.Sprintf("interface payload %T cannot be stored", v.V))
}

func (e *Engine) msetVal(s *State, m MapV, k Term, v Val) { e.msetValT(s, m, k, m.V, "v", v) }

func (e *Engine) msetValT(s *State, m MapV, k Term, t types.Type, prefix string, v Val) {
	cs := mapLeaves(t, prefix)
	switch x := v.(type) {
	case SliceV:
		for i, t := range []Term{x.Ref, x.Off, x.Len, x.Cap} {
			e.mwrite(s, m, cs[i].name, cs[i].sort, k, t)
		}
	case PtrV:
		r := refT(0)
		if !x.Nil {
			if x.Kind == "cell" || len(x.Path) > 0 {
				panic("storing an interior/cell pointer into a map value is unsupported")
			}
			r = x.Ref
		}
		e.mwrite(s, m, cs[0].name, cs[0].sort, k, r)
	case Term:
		e.mwrite(s, m, cs[0].name, cs[0].sort, k, x)
	case StrV:
		e.mwrite(s, m, cs[0].name, cs[0].sort, k, e.strTerm(s, x))
	case IfaceV:
		e.mwrite(s, m, cs[0].name, cs[0].sort, k, e.ifaceRef(x))
	case MapV:
		e.mwrite(s, m, cs[0].name, cs[0].sort, k, x.Ref)
	case StructV:
		u := t.Underlying().(*types.Struct)
		for i := 0; i < u.NumFields(); i++ {
			e.msetValT(s, m, k, u.Field(i).Type(), prefix+"$"+u.Field(i).Name(), x.F[i])
		}
	default:
		panic(fmt.Sprintf("msetVal %T", v))
	}
}

func (e *Engine) keyTerm(s *State, v Val) Term {
	switch x := v.(type) {
	case Term:
		return x
	case StrV:
		if x.Const != nil {
			return e.strConst(s, *x.Const)
		}
		return x.T
	}
	panic(fmt.Sprintf("map key %T", v))
}

// sliceWF assumes the type invariant of a slice header read from the (well-typed) heap.
func (e *Engine) sliceWF(s *State, v SliceV) {
	if s.quant > 0 {
		return
	}
	lim := intBig(new(big.Int).Lsh(big.NewInt(1), 40))
	e.assume(s, and(ile(intT(0), v.Off), ile(intT(0), v.Len), ile(v.Len, v.Cap), ile(v.Off, lim), ile(v.Cap, lim), app(">=", "Bool", v.Ref, refT(0))))
	e.assume(s, or(refPos(v.Ref), eq(v.Cap, intT(0))))
}

// coneDefs returns, in declaration order, the definitions/declarations reachable from the given texts.
func coneDefs(defs []string, roots []string) []string {
	defLine := map[string]string{}
	var order []string
	for _, d := range defs {
		fs := strings.Fields(d)
		if len(fs) < 2 {
			continue
		}
		if _, dup := defLine[fs[1]]; !dup {
			defLine[fs[1]] = d
			order = append(order, fs[1])
		} else if len(d) > len(defLine[fs[1]]) {
			defLine[fs[1]] = d // the same declaration, later extended by its defining axiom
		}
	}
	need := map[string]bool{}
	var visit func(txt string)
	visit = func(txt string) {
		for _, tok := range symRe.FindAllString(txt, -1) {
			if d, ok := defLine[tok]; ok && !need[tok] {
				need[tok] = true
				visit(d[strings.Index(d, tok)+len(tok):])
			}
		}
	}
	for _, r := range roots {
		visit(r)
	}
	var out []string
	for _, nm := range order {
		if need[nm] {
			out = append(out, defLine[nm])
		}
	}
	return out
}

// script renders definitions (cone of influence of the path list and goal) and the path assertions.
func (e *Engine) script(s *State, cond Term) string {
	var b strings.Builder
	b.WriteString(prelude)
	roots := []string{cond.S}
	for _, p := range s.pc {
		roots = append(roots, p.S)
	}
	for _, d := range coneDefs(s.defs, roots) {
		b.WriteString(d)
		b.WriteByte('\n')
	}
	for _, p := range s.pc {
		b.WriteString("(assert " + p.S + ")\n")
	}
	return b.String()
}

// feasible asks an incremental z3 session whether the current path list is satisfiable (prunes dead forks).
// Definitions are global in the session (names are unique and hash-consed); only assertions are pushed/popped.
func (e *Engine) feasible(s *State) bool { return e.feasibleS(&e.sess, s) }

// feasibleS runs the check on the given worker session; the engine lock (if held) is released while waiting.
func (e *Engine) feasibleS(sp **session, s *State) bool {
	if !e.prune || s.spec > 0 || s.quant > 0 {
		return true
	}
	if *sp == nil {
		*sp = newSession()
		(*sp).send(prelude)
	}
	sess := *sp
	e.fchecks++
	// cone of influence of the path list
	defLine := map[string]string{}
	var order []string
	for _, d := range s.defs {
		fs := strings.Fields(d)
		if len(fs) < 2 {
			continue
		}
		if _, dup := defLine[fs[1]]; !dup {
			defLine[fs[1]] = d
			order = append(order, fs[1])
		}
	}
	need := map[string]bool{}
	var visit func(txt string)
	visit = func(txt string) {
		for _, tok := range symRe.FindAllString(txt, -1) {
			if d, ok := defLine[tok]; ok && !need[tok] {
				need[tok] = true
				visit(d[strings.Index(d, tok)+len(tok):])
			}
		}
	}
	for _, p := range s.pc {
		visit(p.S)
	}
	var b strings.Builder
	for _, nm := range order {
		if need[nm] && !sess.sent[nm] {
			sess.sent[nm] = true
			b.WriteString(defLine[nm])
			b.WriteByte('\n')
		}
	}
	b.WriteString("(push)\n")
	for _, p := range s.pc {
		b.WriteString("(assert " + p.S + ")\n")
	}
	b.WriteString("(check-sat)\n(pop)\n")
	if e.par {
		e.mu.Unlock()
	}
	r := sess.ask(b.String())
	if e.par {
		e.mu.Lock()
	}
	return r != "unsat"
}

type session struct {
	cmd  *exec.Cmd
	in   io.WriteCloser
	out  *bufio.Reader
	sent map[string]bool
}

func newSession() *session {
	c := exec.Command("z3-new", "-in", "-t:800")
	in, _ := c.StdinPipe()
	op, _ := c.StdoutPipe()
	c.Stderr = nil
	if err := c.Start(); err != nil {
		panic(err)
	}
	return &session{cmd: c, in: in, out: bufio.NewReader(op), sent: map[string]bool{}}
}

func (x *session) send(t string) { io.WriteString(x.in, t) }

func (x *session) ask(t string) string {
	if p := os.Getenv("GOVC_SESSLOG"); p != "" {
		fh, _ := os.OpenFile(p, os.O_APPEND|os.O_CREATE|os.O_WRONLY, 0644)
		fh.WriteString(t)
		fh.Close()
	}
	io.WriteString(x.in, t)
	for {
		l, err := x.out.ReadString('\n')
		if err != nil {
			return "unknown"
		}
		l = strings.TrimSpace(l)
		if l == "sat" || l == "unsat" || l == "unknown" {
			return l
		}
		if strings.HasPrefix(l, "(error") {
			fmt.Println("SESSION ERROR:", l)
			return "unknown"
		}
	}
}

// ---------- sync/atomic typed values ----------
//
// atomic.Int32/Int64/Uint32/Uint64/Uintptr/Bool/Pointer[T] are modelled by their SEQUENTIAL meaning: a cell holding
// one value of the underlying type (Pointer[T]: a *T); Load/Store/Add/Swap/CompareAndSwap read and write that cell.
// (The engine explores one goroutine; what other goroutines do to the cell is outside, as for every other field.)

// AtomV is the value of such a cell when the enclosing struct is handled as a value.
type AtomV struct{ V Val }

func atomicValT(t types.Type) types.Type {
	n, ok := t.(*types.Named)
	if !ok || n.Obj().Pkg() == nil || n.Obj().Pkg().Path() != "sync/atomic" {
		return nil
	}
	switch n.Obj().Name() {
	case "Int32":
		return types.Typ[types.Int32]
	case "Int64":
		return types.Typ[types.Int64]
	case "Uint32":
		return types.Typ[types.Uint32]
	case "Uint64":
		return types.Typ[types.Uint64]
	case "Uintptr":
		return types.Typ[types.Uintptr]
	case "Bool":
		return types.Typ[types.Bool]
	case "Pointer":
		if n.TypeArgs() != nil && n.TypeArgs().Len() == 1 {
			return types.NewPointer(n.TypeArgs().At(0))
		}
	}
	return nil
}

// atomicMethod: fn is a method of one of the modelled atomic types; returns the cell's value type.
func atomicMethod(fn *ssa.Function) types.Type {
	if fn.Signature.Recv() == nil {
		return nil
	}
	pt, ok := fn.Signature.Recv().Type().(*types.Pointer)
	if !ok {
		return nil
	}
	return atomicValT(pt.Elem())
}

func (e *Engine) atomicCall(s *State, f *Frame, x ssa.Value, fn *ssa.Function, vt types.Type, args []Val) {
	p := args[0].(PtrV)
	e.nonNil(s, p, "atomic")
	var nm string
	switch {
	case p.Kind == "struct" && len(p.Path) == 1 && p.Path[0].Field >= 0:
		nm, _ = e.fieldHeapName(p, p.Path[0].Field)
		nm += "$v"
	case p.Kind == "hcell":
		nm = "C$v"
	default:
		panic("atomic value at an unsupported location (" + p.Kind + ")")
	}
	cur := e.loadHeapVal(s, nm, p.Ref, vt)
	set := func(v Val) { e.storeHeapVal(s, nm, p.Ref, vt, v) }
	mname := fn.Name()
	if i := strings.Index(mname, "["); i >= 0 { // an instance of a generic method: Load[pkg.T]
		mname = mname[:i]
	}
	switch mname {
	case "Load":
		f.env[x] = cur
	case "Store":
		set(args[1])
	case "Swap":
		set(args[1])
		f.env[x] = cur
	case "Add":
		nv := e.name(s, e.binop(s, token.ADD, cur.(Term), args[1].(Term), vt))
		set(nv)
		f.env[x] = nv
	case "CompareAndSwap":
		ct, ok := cur.(Term)
		if !ok {
			panic("CompareAndSwap on an atomic pointer is unsupported")
		}
		hit := e.name(s, eq(ct, args[1].(Term)))
		set(e.name(s, ite(hit, args[2].(Term), ct)))
		f.env[x] = hit
	default:
		panic("atomic method " + fn.Name() + " is unsupported")
	}
}
