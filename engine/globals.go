package main

import (
	"fmt"

	"golang.org/x/tools/go/ssa"
)

// GlobalInv is a `//@ global <specfunc>` directive: a fact about package-level variables that is established by
// the package initialiser (an obligation on init, stated as an ordinary `verify init#1 post=<specfunc>`), that no
// function outside the initialisers can break (syntactic frame check below), and that is therefore assumed at the
// entry of every function under contract.
type GlobalInv struct {
	D  *Directive
	Fn *ssa.Function
}

func (e *Engine) globalInvariants(s *State, t *Target) {
	for _, g := range e.globals {
		if t.Fn.Pkg == g.Fn.Pkg && (t.Fn.Name() == "init" || len(t.Fn.Name()) > 5 && t.Fn.Name()[:5] == "init#") {
			continue // the initialiser itself establishes it
		}
		v := e.evalPure(s, g.Fn, nil, nil).(Term)
		e.assume(s, v)
	}
}

// globalsOf collects the package-level variables a spec function (and the spec functions it calls) reads.
func globalsOf(fn *ssa.Function, seen map[*ssa.Function]bool, out map[*ssa.Global]bool) {
	if fn == nil || seen[fn] || len(fn.Blocks) == 0 {
		return
	}
	seen[fn] = true
	for _, b := range fn.Blocks {
		for _, in := range b.Instrs {
			for _, op := range in.Operands(nil) {
				switch v := (*op).(type) {
				case *ssa.Global:
					out[v] = true
				case *ssa.Function:
					globalsOf(v, seen, out)
				}
			}
		}
	}
	for _, a := range fn.AnonFuncs {
		globalsOf(a, seen, out)
	}
}

// globalFrame checks that no function of the package other than its initialisers stores to (or lets escape) a
// variable that a global invariant talks about. Returns a description of the first offender, or "".
func globalFrame(g *GlobalInv, all map[string]*ssa.Function) string {
	vars := map[*ssa.Global]bool{}
	globalsOf(g.Fn, map[*ssa.Function]bool{}, vars)
	var rootOf func(v ssa.Value) ssa.Value
	rootOf = func(v ssa.Value) ssa.Value {
		switch x := v.(type) {
		case *ssa.FieldAddr:
			return rootOf(x.X)
		case *ssa.IndexAddr:
			return rootOf(x.X)
		}
		return v
	}
	var check func(fn *ssa.Function) string
	check = func(fn *ssa.Function) string {
		if fn.Name() == "init" || (len(fn.Name()) > 5 && fn.Name()[:5] == "init#") {
			return ""
		}
		for _, b := range fn.Blocks {
			for _, in := range b.Instrs {
				switch x := in.(type) {
				case *ssa.Store:
					if gl, ok := rootOf(x.Addr).(*ssa.Global); ok && vars[gl] {
						return fmt.Sprintf("%s stores to %s", shortName(fn.String()), gl.Name())
					}
					if gl, ok := x.Val.(*ssa.Global); ok && vars[gl] {
						return fmt.Sprintf("%s lets the address of %s escape", shortName(fn.String()), gl.Name())
					}
				case *ssa.Call:
					for _, a := range x.Call.Args {
						if gl, ok := rootOf(a).(*ssa.Global); ok && vars[gl] {
							if _, isSpec := a.(*ssa.Global); isSpec || true {
								return fmt.Sprintf("%s passes the address of %s to a call", shortName(fn.String()), gl.Name())
							}
						}
					}
				case *ssa.MapUpdate:
					if u, ok := x.Map.(*ssa.UnOp); ok {
						if gl, ok := u.X.(*ssa.Global); ok && vars[gl] {
							return fmt.Sprintf("%s updates map %s", shortName(fn.String()), gl.Name())
						}
					}
				}
			}
		}
		for _, a := range fn.AnonFuncs {
			if r := check(a); r != "" {
				return r
			}
		}
		return ""
	}
	for _, fn := range all {
		if fn.Pkg != g.Fn.Pkg || fn.Parent() != nil {
			continue
		}
		if r := check(fn); r != "" {
			return r
		}
	}
	return ""
}
