package main

import (
	"fmt"
	"go/token"
	"go/types"
	"math/big"
)

// String model. A Go string is a constant (kept in the executor) or a term of the uninterpreted sort Str with
//   slen : Str -> BV64        sat : Str x BV64 -> BV8
// Strings built by the program (slicing, concatenation, conversion from bytes) are fresh Str constants whose
// length and bytes are fixed by a defining axiom attached to the declaration. Equality with a constant is decided
// byte-wise (exact); equality of two symbolic strings is the equality of the sort (sound for proofs; a spurious
// "different although byte-wise equal" model is possible and would show up as a counterexample that does not replay).

const strPrelude = "(declare-fun slen (Str) (_ BitVec 64))\n(declare-fun sat (Str (_ BitVec 64)) (_ BitVec 8))\n(declare-const str!empty Str)\n(assert (= (slen str!empty) (_ bv0 64)))\n"

func (e *Engine) strLen(s *State, v StrV) Term {
	if v.Const != nil {
		return intT(int64(len(*v.Const)))
	}
	l := e.name(s, app("slen", ISort(), v.T))
	if s.quant == 0 {
		e.assumeOnce(s, and(ile(intT(0), l), ile(l, intBig(new(big.Int).Lsh(big.NewInt(1), 40)))))
	}
	return l
}

func (e *Engine) assumeOnce(s *State, t Term) {
	if s.wt == nil {
		s.wt = map[string]bool{}
	}
	if s.wt["A:"+t.S] {
		return
	}
	s.wt["A:"+t.S] = true
	e.assume(s, t)
}

func (e *Engine) strAt(s *State, v StrV, i Term) Term {
	if v.Const != nil {
		c := *v.Const
		if i.C != nil {
			k := i.C.Int64()
			if k >= 0 && k < int64(len(c)) {
				return bvT(big.NewInt(int64(c[k])), 8)
			}
			return bvT(big.NewInt(0), 8)
		}
		if len(c) <= 96 {
			r := bvT(big.NewInt(0), 8)
			for k := len(c) - 1; k >= 0; k-- {
				r = ite(eq(i, intT(int64(k))), bvT(big.NewInt(int64(c[k])), 8), r)
			}
			return e.name(s, r)
		}
		return app("sat", bvSort(8), e.strConst(s, c), i)
	}
	return app("sat", bvSort(8), v.T, i)
}

// strConst is the Str constant denoting a literal; its length and (for short literals) bytes are axioms of the
// declaration.
func (e *Engine) strConst(s *State, c string) Term {
	nm := fmt.Sprintf("str!%x", c)
	if c == "" {
		return Term{S: "str!empty", Sort: "Str"}
	}
	ax := fmt.Sprintf("(assert (= (slen %s) %s))", nm, intT(int64(len(c))).S)
	if len(c) <= 256 {
		for k := 0; k < len(c); k++ {
			ax += fmt.Sprintf(" (assert (= (sat %s %s) %s))", nm, intT(int64(k)).S, bvT(big.NewInt(int64(c[k])), 8).S)
		}
	}
	s.defs = append(s.defs, fmt.Sprintf("(declare-const %s Str) %s", nm, ax))
	return Term{S: nm, Sort: "Str"}
}

func (e *Engine) strTerm(s *State, v StrV) Term {
	if v.Const != nil {
		return e.strConst(s, *v.Const)
	}
	return v.T
}

// freshStr declares a new string with the given length and byte function (as SMT text over the bound index j).
func (e *Engine) freshStr(s *State, ln Term, byteAt func(j Term) Term) StrV {
	t := e.declare(s, "s", "Str")
	j := "j!" + e.fresh("s")
	jt := Term{S: j, Sort: ISort()}
	s.quant++
	body := byteAt(jt)
	s.quant--
	ax := Term{S: fmt.Sprintf("(and (= (slen %s) %s) (forall ((%s %s)) (! (= (sat %s %s) %s) :pattern ((sat %s %s)))))", t.S, ln.S, j, ISort(), t.S, j, body.S, t.S, j), Sort: "Bool"}
	e.axiom(s, t, ax)
	return StrV{T: t}
}

// strEq decides a == b.
func (e *Engine) strEq(s *State, a, b StrV) Term {
	empty := ""
	if a.Const == nil && a.T.S == "str!empty" { // the empty string that went through the heap is still the literal ""
		a = StrV{Const: &empty}
	}
	if b.Const == nil && b.T.S == "str!empty" {
		b = StrV{Const: &empty}
	}
	if a.Const != nil && b.Const != nil {
		return boolT(*a.Const == *b.Const)
	}
	if a.Const != nil {
		a, b = b, a
	}
	if b.Const != nil { // exact: same length and same bytes as the literal
		c := *b.Const
		parts := []Term{eq(e.strLen(s, a), intT(int64(len(c))))}
		if len(c) > 256 {
			return eq(a.T, e.strConst(s, c))
		}
		for k := 0; k < len(c); k++ {
			parts = append(parts, eq(e.strAt(s, a, intT(int64(k))), bvT(big.NewInt(int64(c[k])), 8)))
		}
		return e.name(s, and(parts...))
	}
	return eq(a.T, b.T)
}

func (e *Engine) strBinop(s *State, op token.Token, a, b StrV) Val {
	switch op {
	case token.EQL:
		return e.strEq(s, a, b)
	case token.NEQ:
		return not(e.strEq(s, a, b))
	case token.ADD:
		if a.Const != nil && b.Const != nil {
			c := *a.Const + *b.Const
			return StrV{Const: &c}
		}
		if a.Const != nil && *a.Const == "" {
			return b
		}
		if b.Const != nil && *b.Const == "" {
			return a
		}
		la, lb := e.strLen(s, a), e.strLen(s, b)
		return e.freshStr(s, e.name(s, iadd(la, lb)), func(j Term) Term {
			return ite(ilt(j, la), e.strAt(s, a, j), e.strAt(s, b, isub(j, la)))
		})
	}
	panic("string operator " + op.String() + " unsupported")
}

// strSlice models s[lo:hi].
func (e *Engine) strSlice(s *State, v StrV, lo, hi Term) StrV {
	if v.Const != nil && lo.C != nil && hi.C != nil {
		c := (*v.Const)[lo.C.Int64():hi.C.Int64()]
		return StrV{Const: &c}
	}
	if lo.C != nil && lo.C.Sign() == 0 && sameTerm(hi, e.strLen(s, v)) {
		return v
	}
	return e.freshStr(s, e.name(s, isub(hi, lo)), func(j Term) Term { return e.strAt(s, v, iadd(lo, j)) })
}

// strToBytes models []byte(s): a fresh array with the bytes of s.
func (e *Engine) strToBytes(s *State, v StrV) SliceV {
	ln := e.strLen(s, v)
	r := e.newRef(s)
	so := bvSort(8)
	nm := "M_" + sortTag(so)
	m := e.heapArr(s, nm, refArrSort(arrSort(so)))
	bt := types.Typ[types.Uint8]
	if v.Const != nil && len(*v.Const) <= 128 {
		e.hset(s, nm, e.name(s, sto(m, r, constArr(so))), HWrite{Ref: r, Val: constArr(so), Whole: true})
		for k := 0; k < len(*v.Const); k++ {
			e.storeElem(s, r, intT(int64(k)), bt, bvT(big.NewInt(int64((*v.Const)[k])), 8))
		}
		return SliceV{r, intT(0), ln, ln, bt}
	}
	na := e.declare(s, "sb", arrSort(so))
	j := "j!" + e.fresh("b")
	jt := Term{S: j, Sort: ISort()}
	s.quant++
	body := e.strAt(s, v, jt)
	s.quant--
	e.axiom(s, na, Term{S: fmt.Sprintf("(forall ((%s %s)) (= (select %s %s) %s))", j, ISort(), na.S, j, body.S), Sort: "Bool"})
	e.hset(s, nm, e.name(s, sto(m, r, na)), HWrite{Ref: r, Val: na, Whole: true})
	return SliceV{r, intT(0), ln, ln, bt}
}

// bytesToStr models string(b): a fresh string with the current bytes of b.
func (e *Engine) bytesToStr(s *State, b SliceV) StrV {
	if b.Len.C != nil && b.Len.C.Sign() == 0 {
		z := ""
		return StrV{Const: &z}
	}
	so := bvSort(8)
	nm := "M_" + sortTag(so)
	e.heapArr(s, nm, refArrSort(arrSort(so)))
	return e.freshStr(s, b.Len, func(j Term) Term {
		return e.read2(s, nm, b.Ref, iadd(b.Off, j), arrSort(so), so)
	})
}
