package main

import (
	"context"
	"fmt"
	"go/types"
	"math/big"
	"os"
	"os/exec"
	"path/filepath"
	"runtime"
	"sort"
	"strings"
	"sync"
	"time"

	"golang.org/x/tools/go/ssa"
)

// Oblig is one verification condition: one (path, source-level obligation) instance.
type Oblig struct {
	T       *Target
	Name    string // source-level name, e.g. mqtt.writeUint16#safe.index@mqtt.writeUint16[0]
	Script  string
	Triv    bool   // discharged by folding / already on the path
	Expect  string // "unsat" (proof obligation) or "sat" (vacuity cover)
	Result  string
	Ms      int64
	Solver  string
	Output  string
	Bounded bool
	run     *TargetRun
	st      *State // path state (append-only after the obligation was emitted)
	npc     int    // number of path-list entries that precede the obligation
	cond    Term
	decided bool // verdict already fixed (structural checks): not sent to a solver
}

// TargetRun keeps what is needed to turn a model of an obligation of this target into concrete inputs.
type TargetRun struct {
	T      *Target
	Args   []Val
	Entry0 *State // state right after parameters were made symbolic and the precondition was assumed
	Paths  int
}

func newEngine(prog *ssa.Program, spkgs []*ssa.Package) *Engine {
	w := workerCount()
	if os.Getenv("GOVC_TRACE") != "" {
		w = 1
	}
	return &Engine{prune: true, workers: w, prog: prog, pkgs: spkgs, loops: map[string]map[int]*LoopAnn{}, heapSorts: map[string]string{}, opaque: map[string]bool{}, contracts: map[string]*Contract{}, ifaceAll: map[string][]*Contract{}, loopsFor: map[string]*LoopAnn{}, siteOrd: map[ssa.Instruction]int{}}
}

func workerCount() int {
	n := runtime.NumCPU() - 2
	if n < 1 {
		n = 1
	}
	if n > 14 {
		n = 14
	}
	return n
}

func (e *Engine) verify(t *Target) {
	e.curT = t
	e.curFn = t.Short
	e.opaqueT = map[string]bool{}
	e.pure = nil // memoised spec results depend on what is opaque
	if o := argVal(t.D, "opaque"); o != "" {
		for _, nm := range strings.Split(o, ",") {
			fn := resolveFn(e.all, t.Fn.Pkg.Pkg.Path(), nm)
			if fn == nil {
				e.errs = append(e.errs, "opaque function not found: "+nm)
				return
			}
			e.opaqueT[fn.String()] = true
		}
	}
	n0 := len(e.obs)
	p0 := e.paths
	e.pathBase = e.paths
	defer func() {
		if r := recover(); r != nil {
			if os.Getenv("GOVC_TRACE") != "" {
				panic(r)
			}
			e.errs = append(e.errs, fmt.Sprintf("unsupported in %s: %v", t.Short, r))
		}
	}()
	e.genDeadline = time.Now().Add(300 * time.Second)
	if tier == "thorough" {
		e.genDeadline = time.Now().Add(40 * time.Minute)
	}
	e.verify2(t)
	if verbose {
		fmt.Printf("  %-60s paths=%d instances=%d\n", t.Short, e.paths-p0, len(e.obs)-n0)
	}
}

func (e *Engine) specFunc(t *Target, name string) *ssa.Function {
	fn := t.Fn.Pkg.Func(name)
	if fn == nil {
		panic("spec function not found: " + name)
	}
	return fn
}

func (e *Engine) verify2(t *Target) {
	fn := t.Fn
	s := &State{cellv: map[*Cell]Val{}, heap: map[string]Term{}, subst: map[string]*big.Int{}}
	s.defs = append(s.defs, "(declare-const alloc!0 (Array Int Bool))")
	s.alloc = Term{S: "alloc!0", Sort: "(Array Int Bool)", C: nil}
	e.pathSeq = 0
	var args []Val
	for _, p := range fn.Params {
		args = append(args, e.symbolic(s, "p_"+p.Name(), p.Type()))
	}
	// a closure under contract (Durable.Add$1, ...): every captured variable is a fresh cell with arbitrary contents
	var bind []Val
	capVal := map[string]Val{}
	capPtr := map[string]PtrV{}
	for _, fv := range fn.FreeVars {
		et := fv.Type().(*types.Pointer).Elem()
		r := e.newRef(s)
		p := e.ptrFromRef(r, et)
		v := e.symbolic(s, "c_"+fv.Name(), et)
		s.spec++
		e.store(s, p, v)
		s.spec--
		bind = append(bind, p)
		capVal[fv.Name()] = v
		capPtr[fv.Name()] = p
	}
	e.capVal = capVal
	f := e.newFrame(s, fn, args, bind, nil, true)
	s.frames = []*Frame{f}
	need := neededOlds(fn, t.D.Posts)
	for i, p := range fn.Params {
		if need[p.Name()] {
			f.entry[p.Name()] = e.snapshot(s, args[i])
		}
	}
	e.globalInvariants(s, t)
	if fn.Name() == "init" && fn.Synthetic != "" { // the package initialiser runs once: its guard is still false
		if g, ok := fn.Pkg.Members["init$guard"].(*ssa.Global); ok {
			s.spec++
			e.store(s, e.globalPtr(s, g), boolT(false))
			s.spec--
		}
	}
	if t.D.Pre != "" {
		pre := e.specFunc(t, t.D.Pre)
		var pa []Val
		for _, pp := range pre.Params {
			if cv, ok := capVal[pp.Name()]; ok {
				pa = append(pa, cv)
				continue
			}
			pa = append(pa, args[paramIndex(fn, pp.Name())])
		}
		v := e.evalPure(s, pre, pa, nil).(Term)
		e.assume(s, v)
		e.learnAll(s, v)
	}
	run := &TargetRun{T: t, Args: args, Entry0: s.clone()}
	e.curRun = run
	// vacuity guard: the precondition (with the type invariants of the inputs) must be satisfiable
	e.cover(s, "pre.sat")
	// entry heap snapshot for vsOld (shared, append-only while entry versions get materialised)
	s.entryHeap, s.entryLog = map[string]Term{}, map[string]*HLog{}
	for k, v := range s.heap {
		s.entryHeap[k] = v
		s.entryLog[k] = &HLog{Base: s.hlog[k].Base, W: append([]HWrite(nil), s.hlog[k].W...)}
	}
	fins := e.runPar(s, 1)
	run.Paths = len(fins)
	if len(fins) == 0 {
		// every path ended in a failed obligation (whose negation was then assumed) or a panic: the failed
		// obligations carry the verdict; if there are none this is a vacuity error
		e.obs = append(e.obs, &Oblig{T: e.curT, Name: e.curFn + "#cover.return", Expect: "sat", Result: "unsat", Output: "no path reaches a return", run: run})
		return
	}
	for i, fs := range fins {
		if i < 40 || tier == "thorough" {
			e.cover(fs, "cover.exit")
		}
		if c := e.contracts[fn.String()]; c != nil {
			e.frameCheck(fs, c, args)
		}
		switch t.D.Kind {
		case "lemma", "bounded":
			if len(fs.ret) != 1 {
				panic("a lemma must return exactly one bool")
			}
			e.oblig(fs, t.D.Kind, fs.ret[0].(Term))
			continue
		}
		for _, pn := range t.D.Posts {
			post := e.specFunc(t, pn)
			var pa []Val
			for _, pp := range post.Params {
				nm := pp.Name()
				switch {
				case strings.HasPrefix(nm, "old_"):
					pa = append(pa, f.entry[nm[4:]])
				case strings.HasPrefix(nm, "res") && isDigits(nm[3:]):
					var i int
					fmt.Sscanf(nm, "res%d", &i)
					if i >= len(fs.ret) {
						panic("contract " + pn + " names " + nm + " but the function has fewer results")
					}
					pa = append(pa, fs.ret[i])
				case strings.HasPrefix(nm, "cur_") && hasCap(capPtr, nm[4:]): // a captured variable's value at exit
					cp := capPtr[nm[4:]]
					fs.spec++
					pa = append(pa, e.load(fs, cp, cp.Elem))
					fs.spec--
				default:
					if cv, ok := capVal[nm]; ok {
						pa = append(pa, cv) // the captured variable's value at entry
					} else {
						pa = append(pa, args[paramIndex(fn, nm)])
					}
				}
			}
			if os.Getenv("GOVC_SHOWTRACE") != "" && pn == t.D.Posts[0] {
				var names []string
				for _, ev := range fs.trace {
					names = append(names, ev.Name)
				}
				fmt.Printf("TRACE %s: %s\n", t.Short, strings.Join(names, " | "))
			}
			// a conjunctive postcondition is discharged conjunct by conjunct (small VCs are the stable ones)
			parts := e.conjuncts(e.evalPure(fs, post, pa, nil).(Term), 64)
			for _, p := range parts {
				e.oblig(fs, "ensures["+pn+"]", p)
			}
		}
	}
}

func isDigits(s string) bool {
	if s == "" {
		return false
	}
	for _, c := range s {
		if c < '0' || c > '9' {
			return false
		}
	}
	return true
}

func paramIndex(fn *ssa.Function, name string) int {
	for i, p := range fn.Params {
		if p.Name() == name {
			return i
		}
	}
	panic("contract names " + name + ", which is not a parameter of " + shortName(fn.String()) + " (signature changed?)")
}

// snapshot makes a frozen ghost copy of slice contents (for old_x).
func (e *Engine) snapshot(s *State, v Val) Val {
	if p, isP := v.(PtrV); isP && !p.Nil && (p.Kind == "hcell" || p.Kind == "struct" || p.Kind == "arr") {
		// old_p of a pointer parameter is the pointee as it was at entry (shallow copy)
		s.spec++
		defer func() { s.spec-- }()
		var t types.Type
		switch p.Kind {
		case "hcell":
			t = p.Elem
		case "struct":
			if p.Struc != nil {
				t = p.Struc
			} else {
				t = p.StT
			}
		case "arr":
			t = types.NewArray(p.Elem, p.N)
		}
		return e.load(s, p, t)
	}
	sv, ok := v.(SliceV)
	if !ok {
		return v
	}
	so, ok2 := sortOf(sv.Elem)
	if !ok2 {
		return v
	}
	r := e.newRef(s)
	_ = so
	// every leaf array the element type is laid out in (a string element lives in ME_string, not in M_Str)
	for _, l := range elemLeaves(sv.Elem, elemPrefix(sv.Elem)) {
		m := e.leafArr(s, l)
		inner := e.name(s, sel(m, sv.Ref, arrSort(l.sort)))
		e.hset(s, l.name, e.name(s, sto(m, r, inner)), HWrite{Ref: r, Val: inner, Whole: true})
	}
	return SliceV{r, sv.Off, sv.Len, sv.Cap, sv.Elem}
}

func (e *Engine) learnAll(s *State, v Term) {
	for _, p := range s.pc {
		e.learn(s, p)
	}
}

// cover emits a vacuity guard: the assumptions on this path must be satisfiable.
func (e *Engine) cover(s *State, name string) {
	var b strings.Builder
	b.WriteString(e.script(s, boolT(true)))
	b.WriteString("(check-sat)\n")
	e.obs = append(e.obs, &Oblig{T: e.curT, Name: e.curFn + "#" + name, Script: b.String(), Expect: "sat", run: e.curRun, st: s, npc: len(s.pc), cond: boolT(true)})
}

type solverRes struct {
	solver, first, out string
	ms                 int64
}

// runSolvers races the back ends on one script: cvc5 starts at once (measured: it answers most of these mixed
// array/bit-vector VCs in well under a second), z3 5.1 joins after 1.5 s and z3 4.8 after 6 s if there is still no
// answer. The first definitive answer wins and the others are killed.
func runSolvers(script string, tmo int, dir string, tag string) solverRes {
	fn := filepath.Join(dir, tag+".smt2")
	os.WriteFile(fn, []byte(script), 0644)
	cmds := []struct {
		delay time.Duration
		argv  []string
	}{
		{0, []string{"cvc5", "--tlimit=" + fmt.Sprint(tmo*1000), fn}},
		{300 * time.Millisecond, []string{"z3-new", "-T:" + fmt.Sprint(tmo), fn}},
		{6 * time.Second, []string{"z3", "-T:" + fmt.Sprint(tmo), fn}},
	}
	ctx, cancel := context.WithCancel(context.Background())
	defer cancel()
	ch := make(chan solverRes, len(cmds))
	t0 := time.Now()
	for _, c := range cmds {
		go func(delay time.Duration, sv []string) {
			if delay > 0 {
				select {
				case <-ctx.Done():
					ch <- solverRes{sv[0], "unknown", "not started", 0}
					return
				case <-time.After(delay):
				}
			}
			procSem <- struct{}{} // at most one solver process per core: over-subscription makes every VC slow
			defer func() { <-procSem }()
			if ctx.Err() != nil {
				ch <- solverRes{sv[0], "unknown", "not started", 0}
				return
			}
			b, _ := exec.CommandContext(ctx, sv[0], sv[1:]...).CombinedOutput()
			out := strings.TrimSpace(string(b))
			l := strings.SplitN(out, "\n", 2)[0]
			ch <- solverRes{sv[0], strings.TrimSpace(l), out, time.Since(t0).Milliseconds()}
		}(c.delay, c.argv)
	}
	var last solverRes
	var outs []string
	for k := 0; k < len(cmds); k++ {
		r := <-ch
		outs = append(outs, r.solver+": "+truncate(r.out, 300))
		if r.first == "unsat" || r.first == "sat" {
			return r
		}
		last = r
	}
	last.ms = time.Since(t0).Milliseconds()
	if last.first != "unknown" && last.first != "timeout" {
		last.first = "unknown"
	}
	last.out = strings.Join(outs, "\n")
	return last
}

var procSem = make(chan struct{}, runtime.NumCPU())

func truncate(s string, n int) string {
	if len(s) > n {
		return s[:n] + "…"
	}
	return s
}

func (e *Engine) discharge(tmo int) {
	dir, err := os.MkdirTemp("", "govc-vc-")
	if err != nil {
		panic(err)
	}
	if os.Getenv("GOVC_KEEP") == "" { defer os.RemoveAll(dir) } else { fmt.Println("VCs kept in", dir) }
	sort.SliceStable(e.obs, func(i, j int) bool { return e.obs[i].Name < e.obs[j].Name })
	var wg sync.WaitGroup
	par := runtime.NumCPU()
	if v := os.Getenv("GOVC_PAR"); v != "" {
		fmt.Sscanf(v, "%d", &par)
	}
	sem := make(chan struct{}, par)
	// global budget: a run whose proofs start timing out (a changed tree) must still end in bounded time
	budget := 600 * time.Second // (a quick run on an idle machine needs a sixth of this; the margin is for a loaded one)
	if tier == "thorough" {
		budget = 40 * time.Minute
	}
	deadline := time.Now().Add(budget)
	for i, o := range e.obs {
		if o.Triv || o.decided {
			continue
		}
		if len(o.Script) > 4<<20 {
			o.Result, o.Output = "error", "VC larger than the 4 MB cap"
			continue
		}
		wg.Add(1)
		go func(i int, o *Oblig) {
			defer wg.Done()
			sem <- struct{}{}
			defer func() { <-sem }()
			if time.Now().After(deadline) {
				o.Result, o.Output = "timeout", "not attempted: the global solving budget of this run was exhausted"
				return
			}
			lim := tmo
			if o.Expect == "sat" && lim > 6 {
				lim = 6 // a vacuity cover that cannot be decided quickly is noted, not waited for
			}
			r := runSolvers(o.Script, lim, dir, fmt.Sprintf("ob%05d", i))
			o.Result, o.Solver, o.Ms, o.Output = r.first, r.solver, r.ms, r.out
		}(i, o)
	}
	wg.Wait()
	// rescue pass: an obligation that got no answer (timeout / unknown) while dozens of solver processes competed for
	// the cores is tried again with the machine to itself - two at a time, three times the limit - before it is
	// reported as undischarged. A loaded machine must not turn into an alarm.
	var again []int
	for i, o := range e.obs {
		if !o.Triv && !o.decided && o.Expect == "unsat" && o.Result != "unsat" && o.Result != "sat" && o.Result != "error" {
			again = append(again, i)
		}
	}
	if len(again) > 0 && len(again) <= 400 {
		sem2 := make(chan struct{}, 2)
		var wg2 sync.WaitGroup
		for _, i := range again {
			o := e.obs[i]
			if time.Now().After(deadline.Add(time.Duration(tmo*6) * time.Second)) {
				break
			}
			wg2.Add(1)
			go func(i int, o *Oblig) {
				defer wg2.Done()
				sem2 <- struct{}{}
				defer func() { <-sem2 }()
				r := runSolvers(o.Script, tmo*3, dir, fmt.Sprintf("ob%05d_retry", i))
				o.Result, o.Solver, o.Ms, o.Output = r.first, r.solver, o.Ms+r.ms, r.out
			}(i, o)
		}
		wg2.Wait()
	}
	// last resort: the few that are still without an answer (a machine loaded to several times its cores stretches a
	// 10-second proof beyond a minute) get one more attempt each, alone, with ten times the limit. More than a handful
	// left at this point is not load, and is reported as it is.
	var last []int
	for _, i := range again {
		o := e.obs[i]
		if o.Result != "unsat" && o.Result != "sat" && o.Result != "error" {
			last = append(last, i)
		}
	}
	if len(last) > 0 && len(last) <= 6 {
		for _, i := range last {
			o := e.obs[i]
			r := runSolvers(o.Script, tmo*10, dir, fmt.Sprintf("ob%05d_last", i))
			o.Result, o.Solver, o.Ms, o.Output = r.first, r.solver, o.Ms+r.ms, r.out
		}
	}
}

// conjuncts flattens a (possibly named) conjunction into at most max parts.
func (e *Engine) conjuncts(t Term, max int) []Term {
	out := []Term{t}
	for changed := true; changed; {
		changed = false
		var next []Term
		for _, x := range out {
			y := x
			if d, ok := e.defOf[y.S]; ok {
				y = d
			}
			if ps, ok := andTable[y.S]; ok && len(out)+len(ps)-1 <= max {
				next = append(next, ps...)
				changed = true
			} else {
				next = append(next, x)
			}
		}
		out = next
	}
	return out
}

func hasCap(m map[string]PtrV, k string) bool { _, ok := m[k]; return ok }
