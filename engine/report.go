package main

import (
	"encoding/json"
	"fmt"
	"os"
	"path/filepath"
	"regexp"
	"sort"
	"strings"
)

// KnownFinding is one entry of /verif/known_findings.json (committed; never written at run time).
type KnownFinding struct {
	Property   string `json:"property"`
	Obligation string `json:"obligation"` // exact source-level obligation name
	Status     string `json:"status"`     // "open" (KNOWN-FINDING printed, exit 0) or "fixed" (suppresses nothing)
	Commit     string `json:"commit,omitempty"`
	What       string `json:"what"`
	Witness    string `json:"witness,omitempty"`
}

type SrcOblig struct {
	Name      string   `json:"name"`
	Instances int      `json:"instances"`
	Folded    int      `json:"folded"`
	Result    string   `json:"result"` // discharged | failed:sat | failed:unknown | error
	Backends  []string `json:"backends,omitempty"`
	Ms        int64    `json:"solver_ms"`
	Bounded   bool     `json:"bounded,omitempty"`
	worst     *Oblig
	coverSat, coverUnsat, coverUnknown int
}

type Report struct {
	ID            string
	Obligs        []*SrcOblig
	Covers        []*SrcOblig
	Targets       []*Target
	ContractFiles []string
	Engine        *Engine
	LoadS         float64
	GenS          float64
	SolveS        float64
	WallS         float64
}

func (e *Engine) report(id string, cfg *PropCfg, targets []*Target, files []string) *Report {
	by := map[string]*SrcOblig{}
	var order []string
	for _, o := range e.obs {
		so := by[o.Name]
		if so == nil {
			so = &SrcOblig{Name: o.Name, Result: "discharged", Bounded: o.Bounded}
			by[o.Name] = so
			order = append(order, o.Name)
		}
		so.Instances++
		if o.Triv {
			so.Folded++
			continue
		}
		so.Ms += o.Ms
		if o.Expect == "sat" {
			// a vacuity cover holds when at least ONE of its instances is satisfiable (an individual explored path
			// may be infeasible - pruning is incomplete - without the contract being vacuous)
			switch o.Result {
			case "sat":
				so.coverSat++
			case "unsat":
				so.coverUnsat++
				so.worst = o
			default:
				so.coverUnknown++
			}
			switch {
			case so.coverSat > 0:
				so.Result = "discharged"
			case so.coverUnknown > 0:
				so.Result = "cover-unknown"
			default:
				so.Result = "error"
			}
			addOnce(&so.Backends, o.Solver)
			continue
		}
		switch o.Result {
		case "unsat":
			addOnce(&so.Backends, o.Solver)
		case "sat":
			if so.Result != "failed:sat" {
				so.Result, so.worst = "failed:sat", o
			}
		case "error":
			so.Result, so.worst = "error", o
		default:
			if so.Result == "discharged" {
				so.Result, so.worst = "failed:unknown", o
			}
		}
	}
	r := &Report{ID: id, Targets: targets, ContractFiles: files, Engine: e}
	sort.Strings(order)
	for _, n := range order {
		if strings.Contains(n, "#pre.sat") || strings.Contains(n, "#cover.") {
			r.Covers = append(r.Covers, by[n])
		} else {
			r.Obligs = append(r.Obligs, by[n])
		}
	}
	return r
}

func addOnce(l *[]string, s string) {
	if s == "" {
		return
	}
	for _, x := range *l {
		if x == s {
			return
		}
	}
	*l = append(*l, s)
}

func loadKnown() ([]KnownFinding, error) {
	b, err := os.ReadFile(filepath.Join(verifDir, "known_findings.json"))
	if err != nil {
		if os.IsNotExist(err) {
			return nil, nil
		}
		return nil, err
	}
	var k []KnownFinding
	if err := json.Unmarshal(b, &k); err != nil {
		return nil, err
	}
	return k, nil
}

var unsafeName = regexp.MustCompile(`[^A-Za-z0-9_.\-]+`)

// finish prints the verdict lines, writes replay directories and the evidence file, and returns the exit code.
func (r *Report) finish(id string, cfg *PropCfg, writeEvidence bool) int {
	known, err := loadKnown()
	if err != nil {
		return die(2, id, "known_findings.json: %v", err)
	}
	var violations, knownHit []string
	notAttempted := 0
	discharged, proofObl, boundedObl := 0, 0, 0
	var samples []map[string]interface{}
	solverMs := int64(0)
	backends := map[string]int{}
	for _, o := range r.Obligs {
		solverMs += o.Ms
		for _, b := range o.Backends {
			backends[b]++
		}
		if o.Bounded {
			boundedObl++
		} else {
			proofObl++
		}
		if o.Result == "discharged" {
			if !o.Bounded {
				discharged++
			}
			if len(samples) < 12 {
				samples = append(samples, map[string]interface{}{"obligation": o.Name, "instances": o.Instances, "folded": o.Folded, "result": o.Result, "backends": o.Backends, "solver_ms": o.Ms})
			}
			continue
		}
		if o.Result == "error" {
			return die(2, id, "obligation %s could not be formed: %s", o.Name, o.worst.Output)
		}
		// never attempted (the run's solving budget was exhausted before its turn): no answer of any kind - undecided,
		// not a violation
		if strings.HasPrefix(o.worstOutput(), "not attempted") {
			notAttempted++
			continue
		}
		// a failed obligation: known finding or violation
		isKnown := false
		for _, k := range known {
			if k.Property == id && k.Status == "open" && k.Obligation == o.Name {
				isKnown = true
				fmt.Printf("KNOWN-FINDING: property=%s %s: %s\n", id, o.Name, k.What)
				knownHit = append(knownHit, o.Name)
			}
		}
		if isKnown {
			if o.Bounded {
				boundedObl--
			} else {
				proofObl-- // a known finding is reported on its own line, not counted among the obligations claimed
			}
			continue
		}
		dir := filepath.Join(verifDir, "replays", id, unsafeName.ReplaceAllString(o.Name, "_"))
		os.RemoveAll(dir)
		os.MkdirAll(dir, 0755)
		confirmed, note := r.Engine.makeReplay(dir, id, o)
		suffix := ""
		if !confirmed {
			suffix = " no-failing-input-found"
		}
		line := fmt.Sprintf("VIOLATION property=%s replay=%s obligation=%s result=%s%s%s", id, dir, o.Name, o.Result, note, suffix)
		violations = append(violations, line)
	}
	// vacuity guards: only when nothing was refuted (a refuted obligation makes its continuation unreachable)
	if len(violations) == 0 {
		for _, c := range r.Covers {
			if c.Result == "error" {
				return die(2, id, "vacuity guard failed: %s is unsatisfiable (contradictory precondition, invariant or stub)", c.Name)
			}
		}
	}
	// an "open" known finding whose obligation no longer exists or is discharged is simply not printed.
	ev := map[string]interface{}{
		"property_id": id,
		"tier":        tier,
		"seed":        seedVal(),
		"level":       "proof",
		"wall_s":      r.WallS,
		"violations":  len(violations),
	}
	var fns, inl []string
	for _, t := range r.Targets {
		fns = append(fns, t.Short+" ["+t.D.Kind+"]")
	}
	for f := range r.Engine.inlined {
		inl = append(inl, f)
	}
	sort.Strings(inl)
	var covers []map[string]interface{}
	for _, c := range r.Covers {
		covers = append(covers, map[string]interface{}{"name": c.Name, "result": c.Result})
	}
	tb := append([]string{}, globalTrustedBase...)
	tb = append(tb, cfg.TrustedBase...)
	for st := range r.Engine.stubsUsed {
		tb = append(tb, "stub (assumed contract): "+st)
	}
	for f := range r.Engine.safetyOff {
		tb = append(tb, "PARTIAL correctness only (safety=off): run-time panics of "+f+" are outside its contract - the postcondition speaks about normal returns; the goroutine that runs it recovers (C08's structural obligation)")
	}
	for rb := range r.Engine.rebound {
		tb = append(tb, "NOTE: "+rb)
	}
	for bl := range r.Engine.boundedLoops {
		tb = append(tb, "BOUNDED loop (not a proof beyond the bound): "+bl)
	}
	sort.Strings(tb[len(globalTrustedBase):])
	cov := map[string]interface{}{
		"obligations":              proofObl,
		"discharged":               discharged,
		"checker_cmd":              fmt.Sprintf("/verif/bin/govc check %s --tier %s  (VCs from go/ssa of %s at its current working tree; back ends z3 4.8.12, z3 5.1.0, cvc5 1.0 raced per VC)", id, tier, repoDir),
		"trusted_base":             tb,
		"samples":                  samples,
		"functions_under_contract": fns,
		"inlined_functions":        inl,
		"contract_files":           r.ContractFiles,
		"vc_instances":             len(r.Engine.obs),
		"paths_explored":           r.Engine.paths,
		"feasibility_checks":       r.Engine.fchecks,
		"answers_by_backend":       backends,
		"solver_ms_total":          solverMs,
		"load_s":                   r.LoadS,
		"vcgen_s":                  r.GenS,
		"solve_s":                  r.SolveS,
		"vacuity_covers":           covers,
		"bounded_standins":         boundedObl,
		"known_findings_reported":  knownHit,
		"undecided_residue":        cfg.Residue,
		"integer_model":            "every Go integer type is a bit-vector of its machine width (int = 64 bits), exact wrap-around; no mathematical-integer abstraction",
	}
	if boundedObl > 0 {
		var bl []map[string]interface{}
		for _, o := range r.Obligs {
			if o.Bounded {
				bl = append(bl, map[string]interface{}{"standin": o.Name, "instances": o.Instances, "result": o.Result, "bound": boundOf(r, o.Name)})
			}
		}
		cov["bounded"] = bl
	}
	ev["coverage"] = cov
	ev["assumptions"] = tb
	if proofObl+boundedObl == 0 || (discharged == 0 && boundedObl == 0 && len(violations) == 0 && len(knownHit) == 0) {
		return die(2, id, "no proof obligation was generated or discharged (vacuous run)")
	}
	if writeEvidence {
		os.MkdirAll(filepath.Join(verifDir, "evidence"), 0755)
		b, _ := json.MarshalIndent(ev, "", " ")
		if err := os.WriteFile(filepath.Join(verifDir, "evidence", id+".json"), append(b, '\n'), 0644); err != nil {
			return die(2, id, "cannot write evidence: %v", err)
		}
	}
	fmt.Printf("property=%s tier=%s functions=%d obligations=%d discharged=%d bounded=%d instances=%d paths=%d known=%d violations=%d wall=%.1fs (load %.1f gen %.1f solve %.1f)\n",
		id, tier, len(r.Targets), proofObl, discharged, boundedObl, len(r.Engine.obs), r.Engine.paths, len(knownHit), len(violations), r.WallS, r.LoadS, r.GenS, r.SolveS)
	if verbose {
		sl := append([]*Oblig(nil), r.Engine.obs...)
		sort.Slice(sl, func(i, j int) bool { return sl[i].Ms > sl[j].Ms })
		var tot int64
		nt := 0
		for _, o := range sl {
			if !o.Triv {
				nt++
				tot += o.Ms
			}
		}
		fmt.Printf("  non-trivial instances: %d, summed solver time %d ms\n", nt, tot)
		for i := 0; i < 8 && i < len(sl); i++ {
			fmt.Printf("  slow: %-70s %6d ms %s %s\n", sl[i].Name, sl[i].Ms, sl[i].Solver, sl[i].Result)
		}
	}
	if len(violations) > 0 {
		for _, v := range violations {
			fmt.Println(v)
		}
		for _, u := range undecidedTargets {
			fmt.Printf("NOTE property=%s undecided-target: %s\n", id, strings.ReplaceAll(u, "\n", " | "))
		}
		return 1
	}
	if len(undecidedTargets) > 0 {
		return die(2, id, "%s", strings.Join(undecidedTargets, "; "))
	}
	if notAttempted > 0 {
		return die(2, id, "%d obligations were never attempted: the solving budget of this run was exhausted (loaded machine, or the tree now needs far more solver time)", notAttempted)
	}
	return 0
}

func boundOf(r *Report, name string) string {
	for _, t := range r.Targets {
		if strings.HasPrefix(name, t.Short+"#") {
			return t.D.Bound
		}
	}
	return ""
}

func seedVal() int {
	var n int
	fmt.Sscanf(os.Getenv("VERIF_SEED"), "%d", &n)
	return n
}

var globalTrustedBase = []string{
	"govc itself: the SSA->SMT translation (x/tools go/ssa NaiveForm builder, go/types) and the contract evaluator",
	"the unsat answers of z3 4.8.12 / z3 5.1.0 / cvc5 1.0",
	"sequential semantics: no other goroutine mutates the objects a function under contract works on; sync.* calls are no-ops",
	"object sizes <= 2^40 elements; entry heap well-typed (stored references nil or allocated, slice headers well-formed)",
	"termination is not claimed except where a decreases clause is discharged",
}

func (so *SrcOblig) worstOutput() string {
	if so.worst == nil {
		return ""
	}
	return so.worst.Output
}
