package main

import (
	"fmt"
	"go/types"

	"golang.org/x/tools/go/ssa"
)

type Val interface{}

type SliceV struct {
	Ref, Off, Len, Cap Term
	Elem               types.Type
}

// ArrV is an array VALUE with scalar elements (SMT array Int->elem).
type ArrV struct {
	A    Term
	N    int64
	Elem types.Type
}

type StructV struct {
	F []Val
	T *types.Struct
}

type TupleV []Val

type IfaceV struct {
	IsNil Term
	V     Val
	Dyn   types.Type
	Static types.Type // an interface type the dynamic value is known to implement (where the value came from)
	Box   Term // identity of the box when the payload is not itself a reference (string, integer, struct, ...)
}

type FuncV struct {
	Fn      *ssa.Function
	Bind    []Val
	Unknown string           // non-empty: a function value of unknown identity (named after where it was loaded from)
	Sig     *types.Signature // its signature
}

type StrV struct {
	Const *string
	T     Term // symbolic (sort Str) if Const==nil
}

type Sel struct {
	Field int   // >=0 : field selector
	Idx   *Term // non-nil: index selector
}

// PtrV is a pointer = location.
type PtrV struct {
	Nil   bool
	Cell  *Cell // register cell (non-escaping local)
	Path  []Sel // within cell value, or within heap struct
	Kind  string // "cell" | "elem" | "arr" | "struct" | "hcell"
	Ref   Term   // heap ref
	Idx   Term   // elem index (absolute in backing array) for "elem"
	Elem  types.Type
	N     int64       // for arr
	Struc *types.Named // for struct
	StT   *types.Struct
}

type Cell struct {
	Name string
	T    types.Type
	id   int
}

func (c *Cell) String() string { return fmt.Sprintf("%s#%d", c.Name, c.id) }

type MapV struct {
	Ref  Term
	K, V types.Type
}

type IterV struct {
	M   MapV
	Vis Term // ghost: keys already produced (Array K Bool)
}
