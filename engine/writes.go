package main

import (
	"go/types"
	"strings"

	"golang.org/x/tools/go/ssa"
)

// writtenArrays over-approximates, syntactically, the heap arrays (by name prefix) that a set of blocks - and the
// functions they call, transitively through static callees with bodies - can store to. nil means "could not
// classify: assume everything". Used by `modifies=*` loops: only these arrays are forgotten at the cut, so object
// identities held in other arrays (struct fields naming a map, for instance) survive it.
func writtenArrays(blocks []*ssa.BasicBlock, depth int, seen map[*ssa.Function]bool, out map[string]bool) bool {
	addType := func(t types.Type) bool {
		switch u := t.Underlying().(type) {
		case *types.Pointer:
			switch e := u.Elem().Underlying().(type) {
			case *types.Struct:
				n, ok := u.Elem().(*types.Named)
				if !ok {
					out["F_anon_"] = true
				} else {
					out["F_"+n.Obj().Name()+"_"] = true
				}
				_ = e
			case *types.Array:
				for _, l := range elemLeaves(e.Elem(), elemPrefix(e.Elem())) {
					out[l.name] = true
				}
			default:
				out["C"] = true
			}
			return true
		}
		return false
	}
	for _, b := range blocks {
		for _, in := range b.Instrs {
			switch x := in.(type) {
			case *ssa.Store:
				switch a := x.Addr.(type) {
				case *ssa.FieldAddr:
					st := a.X.Type().Underlying().(*types.Pointer).Elem()
					name := "anon"
					if n, ok := st.(*types.Named); ok {
						name = n.Obj().Name()
					}
					// a field of a local struct value is a cell, not the heap - harmless to include
					out["F_"+name+"_"+st.Underlying().(*types.Struct).Field(a.Field).Name()] = true
					if inner, ok := a.X.(*ssa.IndexAddr); ok { // field of a slice element
						if sl, ok := inner.X.Type().Underlying().(*types.Slice); ok {
							for _, l := range elemLeaves(sl.Elem(), elemPrefix(sl.Elem())) {
								out[l.name] = true
							}
						}
					}
				case *ssa.IndexAddr:
					switch ct := a.X.Type().Underlying().(type) {
					case *types.Slice:
						for _, l := range elemLeaves(ct.Elem(), elemPrefix(ct.Elem())) {
							out[l.name] = true
						}
					case *types.Pointer:
						if arr, ok := ct.Elem().Underlying().(*types.Array); ok {
							for _, l := range elemLeaves(arr.Elem(), elemPrefix(arr.Elem())) {
								out[l.name] = true
							}
							out["F_"] = true // an array field of a struct: cannot tell which
						}
					}
				case *ssa.Alloc:
					out["C"] = true
				case *ssa.Global:
					out["C"] = true
				default:
					if !addType(x.Addr.Type()) {
						return false
					}
				}
			case *ssa.MapUpdate:
				mt := x.Map.Type().Underlying().(*types.Map)
				out["MP_"+mapTag(MapV{K: mt.Key(), V: mt.Elem()})+"$"] = true
			case *ssa.Call:
				if bi, ok := x.Call.Value.(*ssa.Builtin); ok {
					switch bi.Name() {
					case "delete":
						mt := x.Call.Args[0].Type().Underlying().(*types.Map)
						out["MP_"+mapTag(MapV{K: mt.Key(), V: mt.Elem()})+"$"] = true
					case "append", "copy":
						if sl, ok := x.Call.Args[0].Type().Underlying().(*types.Slice); ok {
							for _, l := range elemLeaves(sl.Elem(), elemPrefix(sl.Elem())) {
								out[l.name] = true
							}
						}
					}
					continue
				}
				callee := x.Call.StaticCallee()
				if callee == nil || len(callee.Blocks) == 0 {
					continue // unknown implementation / external: by the standing assumption it does not write our objects
				}
				if seen[callee] || depth <= 0 {
					if depth <= 0 && !seen[callee] {
						return false
					}
					continue
				}
				seen[callee] = true
				if !writtenArrays(callee.Blocks, depth-1, seen, out) {
					return false
				}
			}
		}
	}
	return true
}

func touchedBy(nm string, prefixes map[string]bool) bool {
	for p := range prefixes {
		if strings.HasPrefix(nm, p) {
			return true
		}
	}
	return false
}
