package main

import (
	"fmt"
	"regexp"
	"strings"
)

// Ground instantiation of quantified facts (sound, incomplete help for the solvers).
//
// An obligation "forall q. G(q)" under hypotheses "forall k. H(k)" (a quantified loop invariant, the copy axiom of
// an append, the frame axiom of a havocked array) needs the hypotheses instantiated at the goal's Skolem constant.
// With bit-vector index arithmetic the solvers' E-matching rarely finds those instances. addInstances does it
// textually on the finished script:
//
//   - for every single-binder forall F = (forall ((x S)) B) in the cone of the GOAL a fresh constant sk is declared
//     with the Skolem axiom  (or F (not B[x:=sk]))  - a conservative extension (sk is a witness of F's failure if F
//     fails), so it is sound whatever the polarity of F in the goal;
//   - every single-binder forall with a binder of the same sort anywhere in the script (hypotheses and axioms) is
//     instantiated at sk, sk+1 and sk-1 (neighbouring entries of a chain) - instances of an asserted or defined
//     universally quantified formula are consequences of it only where that formula is asserted; therefore the
//     instance of a forall that sits inside a definition D is added as  (=> F B[x:=t])  with F the forall itself,
//     which is valid unconditionally.
//
// Nothing is removed: the quantified originals stay in the script.
var forallRe = regexp.MustCompile(`\(forall \(\(([A-Za-z0-9_!.$]+) (\(_ BitVec 64\)|Int)\)\) `)

type qOcc struct {
	start, end int // text range of the whole (forall ...) term
	v, sort    string
	body       string
}

func matchParen(s string, i int) int { // s[i] == '(' ; returns index after the matching ')'
	d := 0
	for j := i; j < len(s); j++ {
		switch s[j] {
		case '(':
			d++
		case ')':
			d--
			if d == 0 {
				return j + 1
			}
		case '"':
			for j++; j < len(s) && s[j] != '"'; j++ {
			}
		}
	}
	return -1
}

func findForalls(txt string) []qOcc {
	var out []qOcc
	for _, m := range forallRe.FindAllStringSubmatchIndex(txt, -1) {
		st := m[0]
		en := matchParen(txt, st)
		if en < 0 {
			continue
		}
		nested := false
		for _, o := range out {
			if st > o.start && st < o.end {
				nested = true
			}
		}
		if nested {
			continue
		}
		body := txt[m[1] : en-1]
		out = append(out, qOcc{start: st, end: en, v: txt[m[2]:m[3]], sort: txt[m[4]:m[5]], body: body})
	}
	return out
}

func substVar(body, v, t string) string {
	re := regexp.MustCompile(`(^|[\s()])` + regexp.QuoteMeta(v) + `($|[\s()])`)
	// apply twice: adjacent occurrences share a delimiter
	r := re.ReplaceAllString(body, "${1}"+t+"${2}")
	return re.ReplaceAllString(r, "${1}"+t+"${2}")
}

// addInstances returns extra commands to append before the negated goal. defs are the definition lines already in
// the script, goal is the goal term text (usually a defined name).
func addInstances(defs []string, pc []string, goal string, maxBytes int) string {
	defLine := map[string]string{}
	for _, d := range defs {
		fs := strings.Fields(d)
		if len(fs) >= 2 {
			defLine[fs[1]] = d
		}
	}
	// cone of the goal only
	inGoal := map[string]bool{}
	var visit func(txt string)
	visit = func(txt string) {
		for _, tok := range symRe.FindAllString(txt, -1) {
			if d, ok := defLine[tok]; ok && !inGoal[tok] {
				inGoal[tok] = true
				visit(d[strings.Index(d, tok)+len(tok):])
			}
		}
	}
	visit(goal)
	var goalQs, allQs []qOcc
	for _, q := range findForalls(goal) {
		goalQs = append(goalQs, q)
	}
	for _, d := range defs {
		fs := strings.Fields(d)
		qs := findForalls(d)
		allQs = append(allQs, qs...)
		if len(fs) >= 2 && inGoal[fs[1]] && strings.HasPrefix(d, "(define-fun") {
			goalQs = append(goalQs, qs...)
		}
	}
	for _, p := range pc {
		allQs = append(allQs, findForalls(p)...)
	}
	if len(goalQs) == 0 || len(goalQs) > 4 {
		return ""
	}
	var b strings.Builder
	n := 0
	for _, g := range goalQs {
		n++
		sk := fmt.Sprintf("sk!%d!%s", n, strings.NewReplacer("!", "_", ".", "_").Replace(g.v))
		fmt.Fprintf(&b, "(declare-const %s %s)\n", sk, g.sort)
		whole := "(forall ((" + g.v + " " + g.sort + ")) " + g.body + ")"
		fmt.Fprintf(&b, "(assert (or %s (not %s)))\n", whole, substVar(g.body, g.v, sk))
		terms := []string{sk}
		if g.sort == "Int" {
			terms = append(terms, "(+ "+sk+" 1)", "(- "+sk+" 1)")
		} else {
			terms = append(terms, "(bvadd "+sk+" (_ bv1 64))", "(bvsub "+sk+" (_ bv1 64))")
		}
		for _, h := range allQs {
			if h.sort != g.sort || h.body == g.body {
				continue
			}
			whole := "(forall ((" + h.v + " " + h.sort + ")) " + h.body + ")"
			for _, t := range terms {
				fmt.Fprintf(&b, "(assert (=> %s %s))\n", whole, substVar(h.body, h.v, t))
				if b.Len() > maxBytes {
					return ""
				}
			}
		}
	}
	return b.String()
}
