package main

import (
	"bufio"
	"fmt"
	"go/types"
	"os"
	"path/filepath"
	"regexp"
	"strings"

	"golang.org/x/tools/go/ssa"
)

// Directive is one `//@ ...` line of a contract file (zz_*_verif.go, build tag verif) in /repo.
//
//	//@ verify  <fn> [pre=<f>] [post=<f1,f2>] [props=C16,C09] [safety=off] [assume=<label1,label2>]
//	//@ lemma   <fn> [pre=<f>] [props=...]
//	//@ bounded <fn> [pre=<f>] [props=...] bound=<free text without spaces>
//	//@ loop    <fn> <ordinal> unroll <N> | inv <f1,f2> [decreases=<f>]
//	//@ opaque  <fn>
//	//@ isolate <fn> <obligation-suffix> <finding-id>     (an obligation expected to fail = known finding)
type Directive struct {
	Kind   string
	Fn     string // as written (short, package relative)
	Pre    string
	Posts  []string
	Props  []string
	Bound  string
	Safety bool
	File   string
	Line   int
	PkgDir string
	Args   []string
}

type LoopAnn struct {
	Unroll int
	Invs   []string // names of invariant functions
	Decr   string   // name of the variant function (int-valued), optional
	For      string   // only while the named target (function name or as= label) is being verified
	Bounded  bool     // unroll N bounded: executions with more iterations are not covered (stated in the evidence)
	Modifies []string // local variables (slices, pointers, maps) whose referents the loop body may write
}

func hasProp(d *Directive, id string) bool {
	for _, p := range d.Props {
		if p == id {
			return true
		}
	}
	return false
}

// readDirectives scans the contract files of a package directory.
func readDirectives(dir string) ([]*Directive, []string, error) {
	files, _ := filepath.Glob(filepath.Join(dir, "zz_*_verif.go"))
	var out []*Directive
	for _, fn := range files {
		fh, err := os.Open(fn)
		if err != nil {
			return nil, nil, err
		}
		sc := bufio.NewScanner(fh)
		sc.Buffer(make([]byte, 1<<20), 1<<20)
		ln := 0
		for sc.Scan() {
			ln++
			l := strings.TrimSpace(sc.Text())
			switch { // gofmt rewrites "//@" to "// @" inside doc comments: both spellings are directives
			case strings.HasPrefix(l, "//@ "):
				l = l[4:]
			case strings.HasPrefix(l, "// @ "):
				l = l[5:]
			default:
				continue
			}
			fs := strings.Fields(l)
			if len(fs) < 2 {
				fh.Close()
				return nil, nil, fmt.Errorf("%s:%d: malformed directive", fn, ln)
			}
			d := &Directive{Kind: fs[0], Fn: fs[1], File: fn, Line: ln, PkgDir: dir, Safety: true}
			for _, kv := range fs[2:] {
				p := strings.SplitN(kv, "=", 2)
				if len(p) != 2 {
					d.Args = append(d.Args, kv)
					continue
				}
				switch p[0] {
				case "pre":
					d.Pre = p[1]
				case "post":
					d.Posts = strings.Split(p[1], ",")
				case "props":
					d.Props = strings.Split(p[1], ",")
				case "bound":
					d.Bound = p[1]
				case "safety":
					d.Safety = p[1] != "off"
				default:
					d.Args = append(d.Args, kv)
				}
			}
			switch d.Kind {
			case "verify", "lemma", "bounded", "loop", "opaque", "global", "assume", "structural":
			default:
				fh.Close()
				return nil, nil, fmt.Errorf("%s:%d: unknown directive %q", fn, ln, d.Kind)
			}
			out = append(out, d)
		}
		fh.Close()
	}
	return out, files, nil
}

var modPathRe = regexp.MustCompile(`github\.com/(?:[\w\-.]+/)+`)

// shortName strips the module path from an ssa function name:
// (*github.com/emitter-io/emitter/internal/network/mqtt.Publish).EncodeTo -> (*mqtt.Publish).EncodeTo
func shortName(full string) string { return modPathRe.ReplaceAllString(full, "") }

// resolveFn finds the ssa function a directive names, relative to the package of the directive file.
func resolveFn(all map[string]*ssa.Function, pkgPath, name string) *ssa.Function {
	cands := []string{name}
	switch {
	case strings.HasPrefix(name, "(*"): // (*T).M
		cands = append(cands, "(*"+pkgPath+"."+name[2:])
	case strings.HasPrefix(name, "("): // (T).M
		cands = append(cands, "("+pkgPath+"."+name[1:])
	default:
		cands = append(cands, pkgPath+"."+name)
	}
	for _, c := range cands {
		if f := all[c]; f != nil {
			return f
		}
	}
	return lookupAny(name)
}

var theProg *ssa.Program

// lookupAny resolves a fully qualified function or method of any package of the program, e.g.
// (*encoding/base64.Encoding).EncodeToString or golang.org/x/crypto/salsa20/salsa.XORKeyStream.
func lookupAny(name string) *ssa.Function {
	if theProg == nil {
		return nil
	}
	ptr := strings.HasPrefix(name, "(*")
	if strings.HasPrefix(name, "(") {
		i := strings.Index(name, ").")
		if i < 0 {
			return nil
		}
		typ, meth := strings.TrimPrefix(strings.TrimPrefix(name[:i], "("), "*"), name[i+2:]
		j := strings.LastIndex(typ, ".")
		if j < 0 {
			return nil
		}
		pkg := theProg.ImportedPackage(typ[:j])
		if pkg == nil {
			return nil
		}
		t := pkg.Type(typ[j+1:])
		if t == nil {
			return nil
		}
		var T types.Type = t.Type()
		if ptr {
			T = types.NewPointer(T)
		}
		ms := theProg.MethodSets.MethodSet(T)
		for k := 0; k < ms.Len(); k++ {
			if ms.At(k).Obj().Name() == meth {
				return theProg.MethodValue(ms.At(k))
			}
		}
		return nil
	}
	j := strings.LastIndex(name, ".")
	if j < 0 {
		return nil
	}
	pkg := theProg.ImportedPackage(name[:j])
	if pkg == nil {
		return nil
	}
	return pkg.Func(name[j+1:])
}
