package main

import (
	"time"
	"os"
	"runtime/debug"
	"sync"
	"fmt"
	"go/token"
	"go/types"
	"math/big"
	"strings"

	"golang.org/x/tools/go/ssa"
)

type pathKilled struct{}

func (e *Engine) newFrame(s *State, fn *ssa.Function, args []Val, bind []Val, call ssa.Value, cut bool) *Frame {
	if len(fn.Blocks) == 0 {
		panic("no body: " + fn.String())
	}
	f := &Frame{fn: fn, env: map[ssa.Value]Val{}, block: fn.Blocks[0], call: call, visits: map[*ssa.BasicBlock]int{}, entry: map[string]Val{}, cut: cut}
	for i, p := range fn.Params {
		f.env[p] = args[i]
	}
	for i, fv := range fn.FreeVars {
		f.env[fv] = bind[i]
	}
	return f
}

func registerLike(a *ssa.Alloc) bool {
	if a.Heap {
		return false
	}
	var ok func(v ssa.Value) bool
	ok = func(v ssa.Value) bool {
		for _, r := range *v.Referrers() {
			switch x := r.(type) {
			case *ssa.Store:
				if x.Val == v {
					return false // address stored somewhere
				}
			case *ssa.UnOp:
				if x.Op != token.MUL {
					return false
				}
			case *ssa.FieldAddr:
				if !ok(x) {
					return false
				}
			case *ssa.IndexAddr:
				if !ok(x) {
					return false
				}
			case *ssa.DebugRef:
			default:
				return false
			}
		}
		return true
	}
	return ok(a)
}

func (e *Engine) top(s *State) *Frame { return s.frames[len(s.frames)-1] }

// run executes until the frame stack drops below base; returns finished states.
func (e *Engine) run(init *State, base int) []*State {
	var fin []*State
	work := []*State{init}
	for len(work) > 0 {
		s := work[len(work)-1]
		work = work[:len(work)-1]
		func() {
			defer func() {
				if r := recover(); r != nil {
					if _, ok := r.(pathKilled); ok {
						return
					}
					if os.Getenv("GOVC_STACK") != "" && e.curInstr != nil {
						fmt.Fprintf(os.Stderr, "AT %s: %s\n", e.curInstr.Parent(), e.curInstr)
					}
					panic(r)
				}
			}()
			for !s.done {
				if len(s.frames) < base {
					s.done = true
					break
				}
				n0 := len(s.pc)
				fk := e.step(s)
				for _, o := range fk {
					if e.feasible(o) {
						work = append(work, o)
					}
				}
				if len(fk) > 0 && len(s.pc) > n0 && !s.done && !e.feasible(s) {
					s.dead, s.done = true, true
				}
			}
			if s.spec > 0 {
				e.specPaths++
			} else {
				e.paths++
			}
			if !s.dead {
				fin = append(fin, s)
			}
		}()
		if e.paths-e.pathBase > 20000 || e.specPaths > 5000000 {
			panic("path explosion")
		}
	}
	return fin
}

// evalPure runs fn on args from state s and returns the merged boolean/scalar result.
type pureMemo struct {
	res     Val
	defs    []string
	assumes []Term
}

// evalPure runs fn on args from state s and returns the merged boolean/scalar result. Calls of heap-free spec
// functions on scalar arguments are memoised (the same byte is classified by specB64Inv on every path).
func (e *Engine) evalPure(s *State, fn *ssa.Function, args []Val, bind []Val) Val {
	key := ""
	if len(bind) == 0 && len(args) > 0 && s.quant == 0 {
		key = fn.String()
		args = append([]Val(nil), args...)
		for i, a := range args {
			t, ok := a.(Term)
			if !ok {
				key = ""
				break
			}
			t = s.res(t) // constants learned on this path go into the key; nothing else of the path may leak in
			args[i] = t
			key += "|" + t.Sort + ":" + t.S
		}
	}
	if key != "" {
		if m, ok := e.pure[key]; ok {
			s.defs = append(s.defs, m.defs...)
			for _, a := range m.assumes {
				e.assume(s, a)
			}
			return m.res
		}
	}
	touch0 := e.heapTouch
	d0, n0 := len(s.defs), len(s.pc)
	r := e.evalPure2(s, fn, args, bind, key != "")
	if key != "" && e.heapTouch == touch0 {
		if e.pure == nil {
			e.pure = map[string]*pureMemo{}
		}
		m := &pureMemo{res: r, defs: append([]string(nil), s.defs[d0:]...)}
		for i := n0; i < len(s.pc); i++ {
			m.assumes = append(m.assumes, s.pc[i])
		}
		e.pure[key] = m
	}
	return r
}

func (e *Engine) evalPure2(s *State, fn *ssa.Function, args []Val, bind []Val, pathFree bool) Val {
	sub := s.clone()
	if pathFree {
		sub.subst = map[string]*big.Int{} // a memoised result must not depend on what this path has learned
	}
	sub.frames = []*Frame{e.newFrame(sub, fn, args, bind, nil, false)}
	sub.ret, sub.done, sub.dead = nil, false, false
	sub.spec++
	n0, d0 := len(s.pc), len(s.defs)
	q0 := len(s.qfacts)
	fins := e.run(sub, 1)
	// heap arrays first touched while evaluating the specification are versions of the CALLER's heap too: keep them,
	// or a later touch would materialise a second, unrelated version of the same array
	for _, f := range fins {
		for nm, l := range f.hlog {
			if _, ok := s.heap[nm]; !ok && l != nil {
				s.heap[nm] = l.Base
				if s.hlog == nil {
					s.hlog = map[string]*HLog{}
				}
				s.hlog[nm] = &HLog{Base: l.Base}
			}
		}
	}
	for _, f := range fins {
		for _, qf := range f.qfacts[q0:] {
			dup := false
			for _, x := range s.qfacts[q0:] {
				if x.S == qf.S {
					dup = true
					break
				}
			}
			if !dup {
				s.qfacts = append(s.qfacts, qf)
			}
		}
	}
	seen := map[string]bool{}
	var res Term
	first := true
	for _, f := range fins {
		for _, d := range f.defs[d0:] {
			if !seen[d] {
				seen[d] = true
				s.defs = append(s.defs, d)
			}
		}
		if len(f.ret) != 1 {
			panic(fmt.Sprintf("evalPure %s: need exactly one result, got %d (frames %d)", fn, len(f.ret), len(f.frames)))
		}
		var brs []Term
		for i := n0; i < len(f.pc); i++ {
			if f.pcB[i] {
				brs = append(brs, f.pc[i])
			} else if !seen["A:"+f.pc[i].S] {
				seen["A:"+f.pc[i].S] = true
				e.assume(s, f.pc[i])
			}
		}
		cond := and(brs...)
		if len(fins) == 1 {
			if _, isT := f.ret[0].(Term); !isT {
				return f.ret[0]
			}
		}
		r := f.ret[0].(Term)
		if first {
			res, first = r, false
			if len(fins) > 1 {
				res = ite(cond, r, zeroOf(r.Sort))
				if r.Sort == "Bool" {
					res = and(cond, r)
				}
			}
			continue
		}
		if r.Sort == "Bool" {
			res = or(res, and(cond, r))
		} else {
			res = ite(cond, r, res)
		}
	}
	if first {
		fmt.Println("WARNING: evalPure without a finished path:", fn)
		return boolT(true) // no feasible return path
	}
	return e.name(s, res)
}

func (e *Engine) step(s *State) []*State {
	f := e.top(s)
	in := f.block.Instrs[f.idx]
	e.curInstr, e.curFrame = in, f
	adv := true
	var forks []*State
	switch x := in.(type) {
	case *ssa.DebugRef:
	case *ssa.Alloc:
		t := x.Type().(*types.Pointer).Elem()
		if registerLike(x) {
			e.n++
			c := &Cell{Name: x.Comment, T: t, id: e.n}
			s.cellv[c] = e.zero(s, t)
			f.env[x] = PtrV{Kind: "cell", Cell: c}
			if f.entry == nil {
				f.entry = map[string]Val{}
			}
			f.entry["$cell:"+x.Comment] = c
		} else {
			r := e.newRef(s)
			p := e.ptrFromRef(r, t)
			f.env[x] = p
			if at, isArr := t.Underlying().(*types.Array); isArr && elemPrefix(at.Elem()) != "" {
				// an array of structs / slices / strings (e.g. the backing array of make([]T, 0, 4)): zero every leaf
				for _, l := range elemLeaves(at.Elem(), elemPrefix(at.Elem())) {
					m := e.leafArr(s, l)
					e.hset(s, l.name, e.name(s, sto(m, r, constArr(l.sort))), HWrite{Ref: r, Val: constArr(l.sort), Whole: true})
				}
			} else {
				e.store(s, p, e.zero(s, t))
			}
			f.entry["$ptr:"+x.Comment] = p
		}
	case *ssa.Store:
		e.store(s, e.get(s, f, x.Addr).(PtrV), e.get(s, f, x.Val))
	case *ssa.UnOp:
		v := e.get(s, f, x.X)
		switch x.Op {
		case token.MUL:
			f.env[x] = e.load(s, v.(PtrV), x.Type())
		case token.NOT:
			f.env[x] = not(v.(Term))
		case token.SUB:
			t := v.(Term)
			if t.Sort == "Int" {
				f.env[x] = e.binop(s, token.SUB, intT(0), t, x.Type())
			} else {
				f.env[x] = e.binop(s, token.SUB, bvT(big.NewInt(0), bvWidth(t.Sort)), t, x.Type())
			}
		case token.XOR:
			t := v.(Term)
			f.env[x] = e.name(s, app("bvnot", t.Sort, t))
		default:
			panic("unop " + x.Op.String())
		}
	case *ssa.BinOp:
		a, b := e.get(s, f, x.X), e.get(s, f, x.Y)
		switch av := a.(type) {
		case Term:
			f.env[x] = e.name(s, e.binop(s, x.Op, av, b.(Term), x.X.Type()))
		case IfaceV:
			bv := b.(IfaceV)
			var r Term
			if bv.IsNil.C != nil && bv.IsNil.C.Sign() != 0 {
				r = av.IsNil
			} else if av.IsNil.C != nil && av.IsNil.C.Sign() != 0 {
				r = bv.IsNil
			} else {
				r = eq(e.ifaceRef(av), e.ifaceRef(bv))
			}
			if x.Op == token.NEQ {
				r = not(r)
			}
			f.env[x] = r
		case PtrV:
			bv := b.(PtrV)
			var r Term
			switch {
			case av.Nil && bv.Nil:
				r = boolT(true)
			case bv.Nil:
				r = e.ptrIsNil(av)
			case av.Nil:
				r = e.ptrIsNil(bv)
			default:
				r = eq(av.Ref, bv.Ref)
				if av.Kind == "elem" && bv.Kind == "elem" {
					r = and(r, eq(av.Idx, bv.Idx))
				}
			}
			if x.Op == token.NEQ {
				r = not(r)
			}
			f.env[x] = r
		case FuncV:
			bv := b.(FuncV)
			r := boolT((av.Fn == nil) == (bv.Fn == nil) && (av.Fn == nil || av.Fn == bv.Fn))
			if x.Op == token.NEQ {
				r = not(r)
			}
			f.env[x] = r
		case MapV:
			bv := b.(MapV)
			r := eq(av.Ref, bv.Ref) // only comparison with nil is legal Go
			if x.Op == token.NEQ {
				r = not(r)
			}
			f.env[x] = r
		case StrV:
			f.env[x] = e.strBinop(s, x.Op, av, b.(StrV))
		case SliceV: // only comparison with nil is legal Go: a nil slice has no backing object
			bv := b.(SliceV)
			var r Term
			if bv.Ref.C != nil && bv.Ref.C.Sign() == 0 {
				r = eq(av.Ref, refT(0))
			} else {
				r = eq(bv.Ref, refT(0))
			}
			if x.Op == token.NEQ {
				r = not(r)
			}
			f.env[x] = r
		case StructV:
			r := e.structEq(s, av, b.(StructV))
			if x.Op == token.NEQ {
				r = not(r)
			}
			f.env[x] = r
		default:
			panic(fmt.Sprintf("binop on %T", a))
		}
	case *ssa.Convert:
		v := e.get(s, f, x.X)
		switch vv := v.(type) {
		case Term:
			if b, ok := x.Type().Underlying().(*types.Basic); ok && b.Kind() == types.String {
				panic("conversion of an integer to string")
			}
			f.env[x] = e.name(s, e.convert(s, vv, x.X.Type(), x.Type()))
		case StrV: // []byte(s)
			if sl, ok := x.Type().Underlying().(*types.Slice); ok && elemIsByte(sl.Elem()) {
				f.env[x] = e.strToBytes(s, vv)
			} else {
				panic("conversion of string to " + x.Type().String())
			}
		case SliceV: // string(b)
			if b, ok := x.Type().Underlying().(*types.Basic); ok && b.Kind() == types.String && elemIsByte(vv.Elem) {
				f.env[x] = e.bytesToStr(s, vv)
			} else {
				panic("conversion of slice to " + x.Type().String())
			}
		default:
			panic(fmt.Sprintf("convert of %T to %s", v, x.Type()))
		}
	case *ssa.ChangeType:
		f.env[x] = e.get(s, f, x.X)
	case *ssa.ChangeInterface: // the same dynamic value seen through another interface type
		f.env[x] = e.get(s, f, x.X)
	case *ssa.IndexAddr:
		base := e.get(s, f, x.X)
		idx := s.res(e.toInt(s, e.get(s, f, x.Index).(Term), x.Index.Type()))
		switch b := base.(type) {
		case SliceV:
			e.oblig(s, "safe.index", and(ile(intT(0), idx), ilt(idx, b.Len)))
			f.env[x] = PtrV{Kind: "elem", Ref: b.Ref, Idx: iadd(b.Off, idx), Elem: b.Elem}
		case PtrV: // pointer to array
			n := x.X.Type().Underlying().(*types.Pointer).Elem().Underlying().(*types.Array)
			e.oblig(s, "safe.index", and(ile(intT(0), idx), ilt(idx, intT(n.Len()))))
			switch b.Kind {
			case "cell", "struct":
				np := b
				np.Path = append(append([]Sel(nil), b.Path...), Sel{Field: -1, Idx: &idx})
				f.env[x] = np
			case "arr":
				f.env[x] = PtrV{Kind: "elem", Ref: b.Ref, Idx: idx, Elem: b.Elem}
			default:
				panic("indexaddr on ptr kind " + b.Kind)
			}
		default:
			panic(fmt.Sprintf("indexaddr on %T", base))
		}
	case *ssa.Index:
		base := e.get(s, f, x.X)
		idx := s.res(e.toInt(s, e.get(s, f, x.Index).(Term), x.Index.Type()))
		switch b := base.(type) {
		case ArrV:
			e.oblig(s, "safe.index", and(ile(intT(0), idx), ilt(idx, intT(b.N))))
			f.env[x] = e.name(s, sel(b.A, idx, elemSort(b.Elem)))
		case StrV:
			e.oblig(s, "safe.index", and(ile(intT(0), idx), ilt(idx, e.strLen(s, b))))
			f.env[x] = e.name(s, e.strAt(s, b, idx))
		default:
			panic(fmt.Sprintf("index on %T", base))
		}
	case *ssa.FieldAddr:
		p := e.get(s, f, x.X).(PtrV)
		e.nonNil(s, p, "fieldaddr")
		np := p
		np.Path = append(append([]Sel(nil), p.Path...), Sel{Field: x.Field})
		f.env[x] = np
	case *ssa.Field:
		f.env[x] = e.get(s, f, x.X).(StructV).F[x.Field]
	case *ssa.Slice:
		f.env[x] = e.slice(s, f, x)
	case *ssa.MakeSlice:
		n := e.toInt(s, e.get(s, f, x.Len).(Term), x.Len.Type())
		c := e.toInt(s, e.get(s, f, x.Cap).(Term), x.Cap.Type())
		e.oblig(s, "safe.make", and(ile(intT(0), n), ile(n, c)))
		if e.curT != nil && s.spec == 0 {
			if mb := argVal(e.curT.D, "makebound"); mb != "" { // "memory in proportion to the input": a stated ceiling per allocation
				var lim int64
				fmt.Sscanf(mb, "%d", &lim)
				e.oblig(s, "safe.makebound", ile(c, intT(lim)))
			}
		}
		r := e.newRef(s)
		et := x.Type().Underlying().(*types.Slice).Elem()
		for _, l := range elemLeaves(et, elemPrefix(et)) {
			m := e.leafArr(s, l)
			e.hset(s, l.name, e.name(s, sto(m, r, constArr(l.sort))), HWrite{Ref: r, Val: constArr(l.sort), Whole: true})
		}
		f.env[x] = SliceV{r, intT(0), n, c, et}
	case *ssa.MakeMap:
		mt := x.Type().Underlying().(*types.Map)
		if x.Reserve != nil && e.curT != nil && s.spec == 0 {
			if mb := argVal(e.curT.D, "makebound"); mb != "" { // the size hint of make(map, n) is allocated up front
				var lim int64
				fmt.Sscanf(mb, "%d", &lim)
				e.oblig(s, "safe.makebound", ile(e.toInt(s, e.get(s, f, x.Reserve).(Term), x.Reserve.Type()), intT(lim)))
			}
		}
		m := MapV{Ref: e.newRef(s), K: mt.Key(), V: mt.Elem()}
		ks, _ := sortOf(m.K)
		nm := "MP_" + mapTag(m) + "$p"
		h := e.heapArr(s, nm, refArrSort(arr2(ks, "Bool")))
		empty := Term{S: "((as const " + arr2(ks, "Bool") + ") false)", Sort: arr2(ks, "Bool")}
		e.hset(s, nm, e.name(s, sto(h, m.Ref, empty)), HWrite{Ref: m.Ref, Val: empty, Whole: true})
		e.msetCard(s, m, intT(0))
		f.env[x] = m
	case *ssa.Lookup:
		switch m := e.get(s, f, x.X).(type) {
		case MapV:
			e.oblig(s, "safe.nilmap-read-ok", boolT(true))
			k := e.keyTerm(s, e.get(s, f, x.Index))
			pres := e.mread(s, m, "p", "Bool", k)
			val := e.mgetVal(s, m, k)
			if x.CommaOk {
				f.env[x] = TupleV{val, pres}
			} else {
				f.env[x] = val // NOTE: spike ignores zero-value for absent keys
			}
		default:
			panic(fmt.Sprintf("lookup on %T", m))
		}
	case *ssa.MapUpdate:
		m := e.get(s, f, x.Map).(MapV)
		e.oblig(s, "safe.nilmap", not(eq(m.Ref, refT(0))))
		k := e.keyTerm(s, e.get(s, f, x.Key))
		pres := e.mread(s, m, "p", "Bool", k)
		e.msetCard(s, m, e.name(s, ite(pres, e.mcard(s, m), iadd(e.mcard(s, m), intT(1)))))
		e.mwrite(s, m, "p", "Bool", k, boolT(true))
		e.msetVal(s, m, k, e.get(s, f, x.Value))
	case *ssa.Range:
		m := e.get(s, f, x.X).(MapV)
		ks, _ := sortOf(m.K)
		empty := Term{S: "((as const " + arr2(ks, "Bool") + ") false)", Sort: arr2(ks, "Bool")}
		if s.iters == nil {
			s.iters = map[ssa.Value]IterV{}
		}
		s.iters[x] = IterV{M: m, Vis: empty}
		f.env[x] = x
	case *ssa.Next:
		it := s.iters[x.Iter]
		m := it.M
		ks, _ := sortOf(m.K)
		kq := "k!" + e.fresh("n")
		pArr := e.mapPresentArr(s, m)
		// branch (b): exhausted
		o := s.clone()
		e.branch(o, Term{S: fmt.Sprintf("(forall ((%s %s)) (=> (select %s %s) (select %s %s)))", kq, ks, pArr.S, kq, it.Vis.S, kq), Sort: "Bool"})
		of := e.top(o)
		of.env[x] = TupleV{boolT(false), e.zero(o, m.K), e.zero(o, m.V)}
		of.idx++
		forks = append(forks, o)
		// branch (a): a present, unvisited key
		k := e.declare(s, "key", ks)
		e.branch(s, and(sel(pArr, k, "Bool"), not(sel(it.Vis, k, "Bool"))))
		it.Vis = e.name(s, sto(it.Vis, k, boolT(true)))
		s.iters[x.Iter] = it
		var kv Val = k
		if ks == "Str" {
			kv = StrV{T: k}
		}
		f.env[x] = TupleV{boolT(true), kv, e.mgetVal(s, m, k)}
	case *ssa.TypeAssert:
		iv := e.get(s, f, x.X).(IfaceV)
		f.env[x] = e.typeAssert(s, iv, x)
	case *ssa.MakeInterface:
		iv := IfaceV{IsNil: boolT(false), V: e.get(s, f, x.X), Dyn: x.X.Type()}
		if e.boxedByRef == nil {
			e.boxedByRef = map[string]IfaceV{}
		}
		if pv, ok := iv.V.(PtrV); ok {
			if !pv.Nil && pv.Kind == "struct" {
				e.boxedByRef[pv.Ref.S] = iv
				if _, isPtr := x.X.Type().Underlying().(*types.Pointer); isPtr && len(pv.Path) == 0 && s.spec == 0 {
					// the object's type tag: the same object read back from the heap through an interface of unknown
					// origin (a map value, a field) asserts to this pointer type and to no other
					s.defs = append(s.defs, "(declare-fun typeof (Ref) Int)")
					id := e.typeID(x.X.Type())
					e.assume(s, or(eq(pv.Ref, refT(0)), eq(app("typeof", "Int", pv.Ref), Term{S: fmt.Sprint(id), Sort: "Int", C: big.NewInt(int64(id))})))
				}
			}
		} else if s.spec == 0 {
			iv.Box = e.newRef(s) // a boxed non-reference value gets an identity of its own
			e.boxedByRef[iv.Box.S] = iv
		}
		f.env[x] = iv
	case *ssa.MakeClosure:
		var b []Val
		for _, v := range x.Bindings {
			b = append(b, e.get(s, f, v))
		}
		f.env[x] = FuncV{Fn: x.Fn.(*ssa.Function), Bind: b}
	case *ssa.Extract:
		f.env[x] = e.get(s, f, x.Tuple).(TupleV)[x.Index]
	case *ssa.Phi:
		for i, p := range f.block.Preds {
			if p == f.prev {
				f.env[x] = e.get(s, f, x.Edges[i])
			}
		}
	case *ssa.Defer:
		d := &deferred{cc: &x.Call}
		for _, a := range x.Call.Args {
			d.args = append(d.args, e.get(s, f, a))
		}
		if _, isB := x.Call.Value.(*ssa.Builtin); !isB {
			if _, isF := x.Call.Value.(*ssa.Function); !isF {
				d.recv = e.get(s, f, x.Call.Value)
			}
		}
		f.defers = append(append([]*deferred(nil), f.defers...), d)
	case *ssa.RunDefers:
		if n := len(f.defers); n > 0 {
			d := f.defers[n-1]
			f.defers = f.defers[:n-1]
			f.deferArgs, f.deferRecv = d.args, d.recv
			e.call(s, f, d.cc, nil, true)
			adv = false // come back to RunDefers until the stack is empty
		}
	case *ssa.Jump:
		adv = false
		e.enter(s, f, f.block, f.block.Succs[0])
	case *ssa.If:
		adv = false
		c := s.res(e.get(s, f, x.Cond).(Term))
		tb, fb := f.block.Succs[0], f.block.Succs[1]
		if c.C != nil {
			if c.C.Sign() != 0 {
				e.enter(s, f, f.block, tb)
			} else {
				e.enter(s, f, f.block, fb)
			}
			break
		}
		o := s.clone()
		e.branch(o, not(c))
		of := e.top(o)
		e.enter(o, of, of.block, fb)
		if !o.dead {
			forks = append(forks, o)
		}
		e.branch(s, c)
		e.learn(s, c)
		e.enter(s, f, f.block, tb)
	case *ssa.Return:
		adv = false
		var vals []Val
		for _, r := range x.Results {
			vals = append(vals, e.get(s, f, r))
		}
		s.frames = s.frames[:len(s.frames)-1]
		if f.deferRet && len(s.frames) > 0 {
			break // a deferred call returned: the caller re-executes its RunDefers
		}
		if f.call == nil || len(s.frames) == 0 {
			s.ret = vals
			s.done = true
			break
		}
		c := e.top(s)
		switch len(vals) {
		case 0:
		case 1:
			c.env[f.call] = vals[0]
		default:
			c.env[f.call] = TupleV(vals)
		}
		c.idx++
	case *ssa.Panic:
		e.oblig(s, "safe.panic", boolT(false))
		s.dead, s.done = true, true
		adv = false
	case *ssa.Call:
		adv = e.call(s, f, &x.Call, x, false)
	default:
		panic(fmt.Sprintf("unsupported instruction %T: %s in %s", in, in, f.fn))
	}
	if adv {
		f.idx++
	}
	if len(e.pending) > 0 {
		forks = append(forks, e.pending...)
		e.pending = nil
	}
	return forks
}

// structEq is field-wise equality of comparable struct values.
func (e *Engine) structEq(s *State, a, b StructV) Term {
	var parts []Term
	for i := range a.F {
		switch x := a.F[i].(type) {
		case Term:
			parts = append(parts, eq(x, b.F[i].(Term)))
		case StructV:
			parts = append(parts, e.structEq(s, x, b.F[i].(StructV)))
		case PtrV:
			y := b.F[i].(PtrV)
			switch {
			case x.Nil && y.Nil:
			case x.Nil:
				parts = append(parts, e.ptrIsNil(y))
			case y.Nil:
				parts = append(parts, e.ptrIsNil(x))
			default:
				parts = append(parts, eq(x.Ref, y.Ref))
			}
		case StrV:
			y := b.F[i].(StrV)
			if x.Const != nil && y.Const != nil {
				parts = append(parts, boolT(*x.Const == *y.Const))
			} else {
				parts = append(parts, eq(e.strTerm(s, x), e.strTerm(s, y)))
			}
		default:
			panic(fmt.Sprintf("struct comparison with a %T field", x))
		}
	}
	return e.name(s, and(parts...))
}

// typeAssert models x.(T) and x.(T) with comma-ok. A boxed value of known dynamic type is decided statically;
// an interface value of unknown origin carries an uninterpreted type tag typeof(ref).
func (e *Engine) typeAssert(s *State, iv IfaceV, x *ssa.TypeAssert) Val {
	at := x.AssertedType
	var ok Term
	var val Val
	_, toIface := at.Underlying().(*types.Interface)
	switch {
	case iv.Dyn != nil: // boxed by MakeInterface on this path
		match := false
		if toIface {
			match = types.Implements(iv.Dyn, at.Underlying().(*types.Interface))
		} else {
			match = types.Identical(iv.Dyn, at)
		}
		ok = and(not(iv.IsNil), boolT(match))
		if match {
			if toIface {
				val = iv
			} else {
				val = iv.V
			}
		} else {
			val = e.zero(s, at)
		}
	case toIface && iv.Static != nil && types.Implements(iv.Static, at.Underlying().(*types.Interface)):
		ok = not(iv.IsNil) // the value arrived through an interface type that includes the asserted one
		val = iv
	case toIface: // unknown dynamic type asserted to another interface: undecided, result keeps the identity
		// whether the dynamic type implements the asserted interface is a fact about the dynamic value, the same
		// every time it is asked (in the code and in a contract clause alike): an uninterpreted predicate of its identity
		uf := "impl_" + sanitize(at.String())
		s.defs = append(s.defs, fmt.Sprintf("(declare-fun %s (Ref) Bool)", uf))
		okc := e.name(s, app(uf, "Bool", e.ifaceRef(iv)))
		ok = and(not(iv.IsNil), okc)
		val = iv
	default:
		pt, isPtr := at.Underlying().(*types.Pointer)
		if !isPtr {
			// a boxed value of unknown origin (what a sync.Map, a container, an any-typed field hands back): whether it
			// has the asserted type is its type tag; WHAT it is, is not known - an arbitrary value of that type
			ref := e.ifaceRef(iv)
			s.defs = append(s.defs, "(declare-fun typeof (Ref) Int)")
			ok = and(not(iv.IsNil), eq(app("typeof", "Int", ref), Term{S: fmt.Sprint(e.typeID(at)), Sort: "Int", C: big.NewInt(int64(e.typeID(at)))}))
			val = e.symbolic(s, "unboxed", at)
			if x.CommaOk {
				return TupleV{val, ok}
			}
			e.oblig(s, "safe.assert", ok)
			return val
		}
		ref := e.ifaceRef(iv)
		s.defs = append(s.defs, "(declare-fun typeof (Ref) Int)")
		ok = and(not(iv.IsNil), eq(app("typeof", "Int", ref), Term{S: fmt.Sprint(e.typeID(at)), Sort: "Int", C: big.NewInt(int64(e.typeID(at)))}))
		val = e.ptrFromRef(ref, pt.Elem())
	}
	if x.CommaOk {
		return TupleV{val, ok}
	}
	e.oblig(s, "safe.assert", ok)
	return val
}

func (e *Engine) typeID(t types.Type) int {
	if e.typeIDs == nil {
		e.typeIDs = map[string]int{}
	}
	k := t.String()
	if id, ok := e.typeIDs[k]; ok {
		return id
	}
	e.typeIDs[k] = len(e.typeIDs) + 1
	return e.typeIDs[k]
}

// learn records equalities var = const for constant propagation along the path.
func (e *Engine) learn(s *State, c Term) {
	if ps, ok := andTable[c.S]; ok {
		for _, p := range ps {
			e.learn(s, p)
		}
		return
	}
	if d, ok := e.defOf[c.S]; ok {
		e.learn(s, d)
		return
	}
	ab, ok := eqTable[c.S]
	if !ok {
		return
	}
	for i := 0; i < 2; i++ {
		v, k := ab[i], ab[1-i]
		if k.C != nil && v.C == nil && !strings.ContainsAny(v.S, "() ") {
			s.subst[v.S] = k.C
		}
	}
}

func (e *Engine) ptrIsNil(p PtrV) Term {
	if p.Nil {
		return boolT(true)
	}
	if p.Kind == "cell" {
		return boolT(false)
	}
	return eq(p.Ref, refT(0))
}

func (e *Engine) toInt(s *State, t Term, ty types.Type) Term {
	if t.Sort == ISort() && (t.Sort == "Int" || isIntKind(ty)) {
		return t
	}
	return e.name(s, e.convert(s, t, ty, types.Typ[types.Int]))
}

func elemIsByte(t types.Type) bool {
	b, ok := t.Underlying().(*types.Basic)
	return ok && b.Kind() == types.Uint8
}

func (e *Engine) slice(s *State, f *Frame, x *ssa.Slice) Val {
	base := e.get(s, f, x.X)
	if sv, ok := base.(StrV); ok {
		lo, hi := intT(0), e.strLen(s, sv)
		if x.Low != nil {
			lo = s.res(e.toInt(s, e.get(s, f, x.Low).(Term), x.Low.Type()))
		}
		if x.High != nil {
			hi = s.res(e.toInt(s, e.get(s, f, x.High).(Term), x.High.Type()))
		}
		e.oblig(s, "safe.slice", and(ile(intT(0), lo), ile(lo, hi), ile(hi, e.strLen(s, sv))))
		return e.strSlice(s, sv, lo, hi)
	}
	var ref, off, ln, cp Term
	var et types.Type
	switch b := base.(type) {
	case SliceV:
		ref, off, ln, cp, et = b.Ref, b.Off, b.Len, b.Cap, b.Elem
	case PtrV:
		if b.Kind != "arr" {
			panic("slice of pointer kind " + b.Kind)
		}
		e.nonNil(s, b, "slice")
		ref, off, ln, cp, et = b.Ref, intT(0), intT(b.N), intT(b.N), b.Elem
	default:
		panic(fmt.Sprintf("slice of %T", base))
	}
	lo, hi := intT(0), ln
	if x.Low != nil {
		lo = s.res(e.toInt(s, e.get(s, f, x.Low).(Term), x.Low.Type()))
	}
	if x.High != nil {
		hi = s.res(e.toInt(s, e.get(s, f, x.High).(Term), x.High.Type()))
	}
	mx := cp
	if x.Max != nil {
		mx = s.res(e.toInt(s, e.get(s, f, x.Max).(Term), x.Max.Type()))
		e.oblig(s, "safe.slice", ile(mx, cp))
	}
	e.oblig(s, "safe.slice", and(ile(intT(0), lo), ile(lo, hi), ile(hi, mx)))
	I := types.Typ[types.Int]
	return SliceV{ref, e.name(s, e.binop(s, token.ADD, off, lo, I)), e.name(s, e.binop(s, token.SUB, hi, lo, I)), e.name(s, e.binop(s, token.SUB, mx, lo, I)), et}
}

// enter moves frame f to block `to`, applying loop annotations.
func (e *Engine) enter(s *State, f *Frame, from, to *ssa.BasicBlock) {
	f.prev, f.block, f.idx = from, to, 0
	hs := headersOf(f.fn)
	ord := -1
	for i, h := range hs {
		if h == to {
			ord = i
		}
	}
	if ord < 0 {
		return
	}
	if !to.Dominates(from) {
		f.visits[to] = 0 // (re-)entering the loop from outside
	}
	f.visits[to]++
	var ann *LoopAnn
	if m := e.loops[f.fn.String()]; m != nil {
		ann = m[ord]
	}
	// Robustness against harmless restructuring (a loop extracted into a helper, a loop added before this one): if the
	// annotation registered for this ordinal names locals this function no longer has at this loop, use the
	// annotation of another ordinal of the same function whose locals all bind here (and say so).
	if ann != nil && len(ann.Invs) > 0 && !e.annBinds(f, ann) {
		var alt *LoopAnn
		for o2, a2 := range e.loops[f.fn.String()] {
			if o2 != ord && len(a2.Invs) > 0 && e.annBinds(f, a2) {
				if alt != nil {
					alt = nil // ambiguous: keep the registered one (and fail loudly)
					break
				}
				alt = a2
			}
		}
		if alt != nil {
			if e.rebound == nil {
				e.rebound = map[string]bool{}
			}
			e.rebound[fmt.Sprintf("%s: the loop annotation registered for another ordinal was bound to loop %d (the function's loop structure changed)", shortName(f.fn.String()), ord)] = true
			ann = alt
		}
	}
	// A loop of the target that was moved, as it is, into a helper of the same package (which is then executed inline):
	// the helper has no annotation of its own, the target has one for a loop it no longer contains, and every local
	// that annotation names exists - with the same type - at this loop. Exactly one such annotation: it is used here.
	if ann == nil && e.curT != nil && f.fn != e.curT.Fn && f.fn.Pkg == e.curT.Fn.Pkg && e.loops[f.fn.String()] == nil {
		var alt *LoopAnn
		nOwn := len(headersOf(e.curT.Fn))
		for o2, a2 := range e.loops[e.curT.Fn.String()] {
			if o2 >= nOwn && len(a2.Invs) > 0 && e.annBinds(f, a2) {
				if alt != nil {
					alt = nil
					break
				}
				alt = a2
			}
		}
		if alt != nil {
			if e.rebound == nil {
				e.rebound = map[string]bool{}
			}
			e.rebound[fmt.Sprintf("%s: a loop annotation of %s was bound to loop %d of this helper (the loop was moved out of the function under contract)", shortName(f.fn.String()), shortName(e.curT.Fn.String()), ord)] = true
			ann = alt
		}
	}
	if e.curT != nil { // an annotation scoped to the target being verified wins
		for _, key := range []string{e.curT.Fn.Name(), argVal(e.curT.D, "as")} {
			if a := e.loopsFor[f.fn.String()+"|"+fmt.Sprint(ord)+"|"+key]; a != nil && key != "" {
				ann = a
			}
		}
	}
	back := to.Dominates(from)
	if ann == nil || ann.Unroll > 0 {
		// a loop without any annotation is only followed as far as a constant trip count plausibly goes; beyond that
		// it needs an annotation (obligation loopN.unwind fails) - exploring thousands of symbolic iterations, each
		// with a solver call at its fork, is how a check stops ending in bounded time
		limit := 130
		if ann != nil {
			limit = ann.Unroll + 1
		}
		if f.visits[to] > limit {
			if ann != nil && ann.Bounded {
				// a declared bound: longer executions are outside what this contract covers (recorded in the evidence)
				if e.boundedLoops == nil {
					e.boundedLoops = map[string]bool{}
				}
				e.boundedLoops[fmt.Sprintf("%s loop %d: at most %d iterations explored", shortName(f.fn.String()), ord, ann.Unroll)] = true
			} else {
				e.oblig(s, fmt.Sprintf("%s.loop%d.unwind", f.fn.Name(), ord), boolT(false))
			}
			s.dead, s.done = true, true
		}
		return
	}
	evalInvs := func(tag string, assumeIt bool) {
		for k, nm := range ann.Invs {
			fn := e.lookupFunc(f.fn.Pkg, nm)
			v := e.evalPure(s, fn, e.specArgs(s, f, fn, nil), nil).(Term)
			if assumeIt {
				e.assume(s, v)
			} else {
				for _, part := range e.conjuncts(v, 16) { // conjunct by conjunct: small VCs are the stable ones
					e.oblig(s, fmt.Sprintf("%s.loop%d.inv[%d].%s", f.fn.Name(), ord, k, tag), part)
				}
			}
		}
	}
	evalVariant := func() Term {
		fn := e.lookupFunc(f.fn.Pkg, ann.Decr)
		return e.evalPure(s, fn, e.specArgs(s, f, fn, nil), nil).(Term)
	}
	if back {
		evalInvs("preserved", false)
		if ann.Decr != "" { // termination: the variant is non-negative at the head and strictly smaller at the back edge
			v0, ok := f.entry[fmt.Sprintf("$variant%d", ord)].(Term)
			if !ok {
				panic("no variant snapshot for loop " + fmt.Sprint(ord))
			}
			v1 := evalVariant()
			e.oblig(s, fmt.Sprintf("%s.loop%d.variant", f.fn.Name(), ord), and(ile(intT(0), v0), ilt(v1, v0)))
		}
		e.loopFrameCheck(s, f, ann, fmt.Sprintf("%s.loop%d", f.fn.Name(), ord))
		s.dead, s.done = true, true
		return
	}
	evalInvs("entry", false)
	e.havoc(s, f, to, ann)
	evalInvs("", true)
	// head<ord>_<x>: the value of local x at the head of THIS iteration of loop <ord> (nameable in the invariants of
	// inner loops and in variants), and the variant's value there
	for k, c := range f.entry {
		if strings.HasPrefix(k, "$cell:") {
			if cell, ok := c.(*Cell); ok {
				if v, ok := s.cellv[cell]; ok {
					f.entry[fmt.Sprintf("head%d_%s", ord, k[6:])] = v
				}
			}
		}
	}
	if ann.Decr != "" {
		f.entry[fmt.Sprintf("$variant%d", ord)] = evalVariant()
	}
}

// loopFrame records a cut loop: what was allocated when it was entered and which objects its body may write.
type loopFrame struct {
	allocL Term
	W      []Term     // identities (at loop entry) of the objects named by `modifies=`
	Wnames [][]string // for each of them: prefixes of the heap arrays its contents live in (object identities are
	//                   one untyped space; an object of another type never shares arrays with it)
	cells []string // the local variables named by `modifies=`
	fn    *ssa.Function
	any   bool // modifies=*: no frame
	anyWrites map[string]bool // modifies=*: name prefixes of the heap arrays the body can store to (nil = all)
}

// heapNamesOf lists the heap-array name prefixes that hold the contents of what v refers to.
func (e *Engine) heapNamesOf(v Val) []string {
	switch x := v.(type) {
	case SliceV:
		var out []string
		for _, l := range elemLeaves(x.Elem, elemPrefix(x.Elem)) {
			out = append(out, l.name)
		}
		return out
	case PtrV:
		switch x.Kind {
		case "struct":
			return []string{"F_" + structName(x) + "_"}
		case "arr":
			return []string{"M_" + sortTag(elemSort(x.Elem))}
		case "hcell":
			return []string{"C"}
		}
	case MapV:
		return []string{"MP_" + mapTag(x) + "$"}
	}
	return []string{""}
}

// cellRef gives the object identity a local variable (slice, pointer or map) currently refers to.
func (e *Engine) cellRef(s *State, f *Frame, name string) (Term, bool) {
	r, _, ok := e.cellRefV(s, f, name)
	return r, ok
}

func (e *Engine) cellRefV(s *State, f *Frame, name string) (Term, Val, bool) {
	var v Val
	if c, ok := f.entry["$cell:"+name]; ok {
		v = s.cellv[c.(*Cell)]
	} else if p, ok := f.entry["$ptr:"+name]; ok {
		s.spec++
		v = e.load(s, p.(PtrV), p.(PtrV).Elem)
		s.spec--
	} else {
		for i, p := range f.fn.Params {
			if p.Name() == name {
				_ = i
				v = f.env[p]
			}
		}
	}
	switch x := v.(type) {
	case SliceV:
		return x.Ref, v, true
	case PtrV:
		if x.Nil {
			return refT(0), v, true
		}
		return x.Ref, v, true
	case MapV:
		return x.Ref, v, true
	}
	return Term{}, nil, false
}

// loopFrameCheck (at the back edge): every heap write of the body went to an object that the loop owns - one
// named by modifies= at loop entry, or one allocated after the loop was entered - and every modifies= variable
// still refers to such an object.
func (e *Engine) loopFrameCheck(s *State, f *Frame, ann *LoopAnn, tag string) {
	if len(s.lframes) == 0 {
		return
	}
	lf := s.lframes[len(s.lframes)-1]
	if lf.any {
		return
	}
	allowed := func(r Term) Term {
		if r.C != nil && r.C.Sign() == 0 {
			return boolT(true)
		}
		ok := not(sel(lf.allocL, r, "Bool"))
		for _, w := range lf.W {
			if sameTerm(w, r) {
				return boolT(true)
			}
			ok = or(ok, eq(w, r))
		}
		return ok
	}
	seen := map[string]bool{}
	for nm, l := range s.hlog {
		for _, w := range l.W {
			if strings.HasPrefix(w.Ref.S, "ref!") || seen[nm+w.Ref.S] {
				continue
			}
			seen[nm+w.Ref.S] = true
			e.oblig(s, tag+".frame["+nm+"]", allowed(w.Ref))
		}
	}
	for _, c := range lf.cells {
		if r, ok := e.cellRef(s, f, c); ok {
			e.oblig(s, tag+".owned["+c+"]", or(eq(r, refT(0)), allowed(r)))
		}
	}
}

func (e *Engine) lookupFunc(p *ssa.Package, name string) *ssa.Function {
	fn := p.Func(name)
	if fn == nil {
		panic("spec function not found: " + name)
	}
	return fn
}

// specArgs binds parameters of a spec function by name from the current frame.
func (e *Engine) specArgs(s *State, f *Frame, fn *ssa.Function, results []Val) []Val {
	var args []Val
	for _, p := range fn.Params {
		nm := p.Name()
		switch {
		case strings.HasPrefix(nm, "old_"):
			v, ok := f.entry[nm[4:]]
			if !ok {
				panic("no entry snapshot for " + nm)
			}
			args = append(args, v)
		case strings.HasPrefix(nm, "head") && strings.Contains(nm, "_") && f.entry[nm] != nil:
			args = append(args, f.entry[nm])
		case strings.HasPrefix(nm, "res") && results != nil:
			var i int
			fmt.Sscanf(nm, "res%d", &i)
			args = append(args, results[i])
		default:
			if _, aliased := f.entry["$alias:"+nm]; aliased { // bound to rangeindex+1 when the loop was entered: stay with it
				if v, ok := e.rangeAlias(s, f, nm, p.Type()); ok {
					args = append(args, v)
					continue
				}
			}
			if c, ok := f.entry["$cell:"+nm]; ok {
				args = append(args, s.cellv[c.(*Cell)])
			} else if p2, ok := f.entry["$ptr:"+nm]; ok {
				args = append(args, e.load(s, p2.(PtrV), p.Type()))
			} else if v, ok := e.rangeAlias(s, f, nm, p.Type()); ok {
				f.entry["$alias:"+nm] = boolT(true)
				args = append(args, v)
			} else {
				panic("spec parameter " + nm + " not found in scope of " + f.fn.Name())
			}
		}
	}
	return args
}

// havoc forgets everything the loop may write.
func (e *Engine) havoc(s *State, f *Frame, h *ssa.BasicBlock, ann *LoopAnn) {
	body := loopBlocks(h)
	cells := map[*Cell]bool{}
	heapAll := false
	var root func(v ssa.Value) ssa.Value
	root = func(v ssa.Value) ssa.Value {
		switch x := v.(type) {
		case *ssa.FieldAddr:
			return root(x.X)
		case *ssa.IndexAddr:
			if _, ok := x.X.Type().Underlying().(*types.Pointer); ok {
				return root(x.X)
			}
			return nil
		}
		return v
	}
	for b := range body {
		for _, in := range b.Instrs {
			switch x := in.(type) {
			case *ssa.Store:
				if a, ok := root(x.Addr).(*ssa.Alloc); ok {
					if p, ok := f.env[a].(PtrV); ok && p.Kind == "cell" {
						cells[p.Cell] = true
						continue
					}
					if _, bound := f.env[a]; !bound {
						continue // allocated inside the loop
					}
				}
				heapAll = true
			case *ssa.Call:
				if _, ok := x.Call.Value.(*ssa.Builtin); ok {
					if x.Call.Value.Name() == "copy" || x.Call.Value.Name() == "append" {
						heapAll = true
					}
					continue
				}
				heapAll = true
			}
		}
	}
	// identities of the modifies= objects at loop entry (before anything is forgotten)
	lf := loopFrame{allocL: s.alloc, fn: f.fn}
	if ann != nil && len(ann.Modifies) == 1 && ann.Modifies[0] == "*" {
		lf.any = true // the loop may write anything it syntactically can: nothing is owed (safety-only contracts)
		var bl []*ssa.BasicBlock
		for b := range body {
			bl = append(bl, b)
		}
		w := map[string]bool{}
		if writtenArrays(bl, 6, map[*ssa.Function]bool{}, w) {
			lf.anyWrites = w
		}
	}
	if ann != nil && !lf.any {
		for _, c := range ann.Modifies {
			if r, v, ok := e.cellRefV(s, f, c); ok {
				lf.W = append(lf.W, r)
				lf.Wnames = append(lf.Wnames, e.heapNamesOf(v))
				lf.cells = append(lf.cells, c)
			} else {
				panic("loop modifies= names " + c + ", which is not a slice, pointer or map variable in scope")
			}
		}
	}
	if heapAll {
		// the allocation map only grows
		na := e.declare(s, "alloc", "(Array Int Bool)")
		e.axiom(s, na, Term{S: fmt.Sprintf("(forall ((r!a Ref)) (=> (select %s r!a) (select %s r!a)))", lf.allocL.S, na.S), Sort: "Bool"})
		s.alloc = na
	}
	for c := range cells {
		s.cellv[c] = e.symbolic(s, c.Name, c.T)
	}
	for b := range body {
		for _, in := range b.Instrs {
			if nx, ok := in.(*ssa.Next); ok {
				if it, ok := s.iters[nx.Iter]; ok {
					ks, _ := sortOf(it.M.K)
					it.Vis = e.declare(s, "vis", arr2(ks, "Bool"))
					s.iters[nx.Iter] = it
				}
			}
		}
	}
	if heapAll {
		s.epoch = e.n + 1
		e.n++
		for nm := range s.heap {
			e.havocHeapArr(s, nm, lf)
		}
		s.lframes = append(append([]loopFrame(nil), s.lframes...), lf)
		// the loop-owned variables refer to nil, to the object they had at loop entry, or to one allocated since
		for i, c := range lf.cells {
			if r, ok := e.cellRef(s, f, c); ok {
				e.assume(s, or(eq(r, refT(0)), eq(r, lf.W[i]), not(sel(lf.allocL, r, "Bool"))))
			}
		}
		e.globalInvariants(s, e.curT) // facts about package-level variables survive (nobody outside init writes them)
	}
}

// havocHeapArr replaces heap array nm by a fresh version that agrees with the old one on every object that was
// allocated when the loop was entered and is not in the loop's modifies set.
func (e *Engine) havocHeapArr(s *State, nm string, lf loopFrame) {
	old := s.heap[nm]
	fresh := e.declare(s, nm, e.heapSorts[nm])
	if lf.any {
		if lf.anyWrites != nil && !touchedBy(nm, lf.anyWrites) {
			s.defs = s.defs[:len(s.defs)-1] // the body cannot store to this array: it keeps its version
			s.heap[nm] = old
			return
		}
		s.heap[nm] = fresh
		s.hlog[nm] = &HLog{Base: fresh}
		e.mapValWT(s, nm, fresh, s.alloc)
		return
	}
	cond := fmt.Sprintf("(select %s r!f)", lf.allocL.S)
	for i, w := range lf.W {
		touches := false
		for _, pre := range lf.Wnames[i] {
			if strings.HasPrefix(nm, pre) {
				touches = true
			}
		}
		if touches {
			cond = fmt.Sprintf("(and %s (not (= r!f %s)))", cond, w.S)
		}
	}
	e.axiom(s, fresh, Term{S: fmt.Sprintf("(forall ((r!f Ref)) (! (=> %s (= (select %s r!f) (select %s r!f))) :pattern ((select %s r!f))))", cond, fresh.S, old.S, fresh.S), Sort: "Bool"})
	s.heap[nm] = fresh
	s.hlog[nm] = &HLog{Base: fresh}
	e.mapValWT(s, nm, fresh, s.alloc)
}

// call handles builtins, intrinsics, and inlines static callees. Returns whether to advance.
func (e *Engine) call(s *State, f *Frame, cc *ssa.CallCommon, x ssa.Value, deferred bool) bool {
	var args []Val
	if deferred {
		args = f.deferArgs
	} else {
		for _, a := range cc.Args {
			args = append(args, e.get(s, f, a))
		}
	}
	if b, ok := cc.Value.(*ssa.Builtin); ok {
		switch b.Name() {
		case "len":
			switch v := args[0].(type) {
			case SliceV:
				f.env[x] = v.Len
			case StrV:
				f.env[x] = e.strLen(s, v)
			case ArrV:
				f.env[x] = intT(v.N)
			case MapV:
				c := e.mcard(s, v)
				ks, _ := sortOf(v.K)
				kq := "k!" + e.fresh("l")
				e.assume(s, Term{S: fmt.Sprintf("(= (= %s %s) (forall ((%s %s)) (not (select %s %s))))", c.S, intT(0).S, kq, ks, e.mapPresentArr(s, v).S, kq), Sort: "Bool"})
				f.env[x] = c
			default:
				panic(fmt.Sprintf("len of %T", v))
			}
		case "cap":
			f.env[x] = args[0].(SliceV).Cap
		case "copy":
			f.env[x] = e.copyB(s, args[0].(SliceV), args[1])
		case "delete":
			m := args[0].(MapV)
			k := e.keyTerm(s, args[1])
			pres := e.mread(s, m, "p", "Bool", k)
			e.msetCard(s, m, e.name(s, ite(pres, isub(e.mcard(s, m), intT(1)), e.mcard(s, m))))
			e.mwrite(s, m, "p", "Bool", k, boolT(false))
		case "append":
			return e.appendB(s, f, x, args[0].(SliceV), args[1])
		case "recover": // on the paths explored nothing is panicking (a panic site is a failed obligation, not a path)
			f.env[x] = IfaceV{IsNil: boolT(true)}
		case "ssa:deferstack", "ssa:wrapnilchk":
			f.env[x] = PtrV{Nil: true}
		default:
			panic("builtin " + b.Name())
		}
		return true
	}
	var fn *ssa.Function
	var bind []Val
	if cc.IsInvoke() {
		var iv IfaceV
		if deferred {
			iv = f.deferRecv.(IfaceV)
		} else {
			iv = e.get(s, f, cc.Value).(IfaceV)
		}
		e.oblig(s, "safe.nil.invoke", not(iv.IsNil))
		if pv, ok := iv.V.(PtrV); ok && iv.Dyn != nil { // concrete dynamic type known: static dispatch
			m := e.prog.LookupMethod(iv.Dyn, cc.Method.Pkg(), cc.Method.Name())
			if m == nil {
				panic("method not found for " + iv.Dyn.String())
			}
			return e.callFn(s, f, m, append([]Val{pv}, args...), nil, x, deferred)
		}
		f.env[x] = e.unknownCall(s, cc.Method.FullName(), cc.Method.Type().(*types.Signature), iv, args)
		return true
	}
	switch v := cc.Value.(type) {
	case *ssa.Function:
		fn = v
	default:
		var fv FuncV
		if deferred {
			fv = f.deferRecv.(FuncV)
		} else {
			fv = e.get(s, f, v).(FuncV)
		}
		fn, bind = fv.Fn, fv.Bind
		if fn == nil && fv.Unknown != "" {
			if r := e.unknownCall(s, "funcvalue:"+fv.Unknown, fv.Sig, nil, args); r != nil {
				f.env[x] = r
			}
			return true
		}
		if fn == nil {
			e.oblig(s, "safe.nil.funcvalue", boolT(false))
			s.dead, s.done = true, true
			return false
		}
	}
	return e.callFn(s, f, fn, args, bind, x, deferred)
}

// callFn dispatches a call to a known function: intrinsics, stubs, contracts, or inlining.
func (e *Engine) callFn(s *State, f *Frame, fn *ssa.Function, args []Val, bind []Val, x ssa.Value, deferred bool) bool {
	name := fn.Name()
	if name == "init" && fn.Synthetic != "" && len(s.frames) > 0 {
		return true // the initialiser of an imported package: it cannot name this package's variables
	}
	if op := originPkg(fn); op != nil && strings.HasSuffix(op.Pkg.Path(), "internal/verifspec") {
		name = "vs" + name
		if i := strings.Index(name, "["); i > 0 {
			name = name[:i] // an instance of a generic helper
		}
	}
	if strings.HasPrefix(name, "vsTrace") {
		if fn.Signature.Results().Len() == 1 {
			curResultType = fn.Signature.Results().At(0).Type()
		}
		if v, ok := e.traceIntrinsic(s, name, args); ok {
			f.env[x] = v
			return true
		}
	}
	switch {
	case strings.HasPrefix(name, "vsOld"): // vsOld(f): evaluate closure f in the heap of function entry
		cl := args[0].(FuncV)
		// captured variables live in cells allocated after entry: read them now, hand them over as register cells
		var bind []Val
		for i, b := range cl.Bind {
			if p, ok := b.(PtrV); ok && p.Kind != "cell" {
				e.n++
				c := &Cell{Name: "cap", T: cl.Fn.FreeVars[i].Type().(*types.Pointer).Elem(), id: e.n}
				s.cellv[c] = e.load(s, p, c.T)
				bind = append(bind, PtrV{Kind: "cell", Cell: c})
			} else {
				bind = append(bind, b)
			}
		}
		cl.Bind = bind
		sub := s.clone()
		sub.heap, sub.hlog = map[string]Term{}, map[string]*HLog{}
		for k, v := range s.entryHeap {
			sub.heap[k] = v
		}
		for k, v := range s.entryLog {
			sub.hlog[k] = &HLog{Base: v.Base, W: append([]HWrite(nil), v.W...)}
		}
		sub.epoch = 0
		sub.lframes = nil
		d0 := len(sub.defs)
		r := e.evalPure(sub, cl.Fn, nil, cl.Bind)
		s.defs = append(s.defs, sub.defs[d0:]...)
		for i := len(s.pc); i < len(sub.pc); i++ {
			e.assume(s, sub.pc[i])
		}
		// heap arrays first materialised while looking at the old heap are entry versions: keep them
		for k, v := range sub.heap {
			if _, ok := s.entryHeap[k]; !ok {
				s.entryHeap[k] = v
				s.entryLog[k] = sub.hlog[k]
				if _, cur := s.heap[k]; !cur && s.epoch == 0 {
					s.heap[k] = v
					s.hlog[k] = &HLog{Base: v}
				}
			}
		}
		f.env[x] = r
		return true
	case name == "vsSameBytes": // same length and contents; identical views of one array are recognised without a quantifier
		a, b := args[0].(SliceV), args[1].(SliceV)
		same := and(eq(a.Ref, b.Ref), eq(a.Off, b.Off))
		so := elemSort(a.Elem)
		nm := "M_" + sortTag(so)
		e.heapArr(s, nm, refArrSort(arrSort(so)))
		q := e.fresh("q")
		qt := Term{S: q, Sort: ISort()}
		s.quant++
		ea := e.read2(s, nm, a.Ref, iadd(a.Off, qt), arrSort(so), so)
		eb := e.read2(s, nm, b.Ref, iadd(b.Off, qt), arrSort(so), so)
		s.quant--
		all := Term{S: fmt.Sprintf("(forall ((%s %s)) %s)", q, ISort(), implies(and(ile(intT(0), qt), ilt(qt, a.Len)), eq(ea, eb)).S), Sort: "Bool"}
		f.env[x] = e.name(s, and(eq(a.Len, b.Len), or(same, all)))
		return true
	case name == "vsWellFormed":
		v := args[0].(SliceV)
		lim := intBig(new(big.Int).Lsh(big.NewInt(1), 40))
		f.env[x] = e.name(s, and(ile(intT(0), v.Off), ile(intT(0), v.Len), ile(v.Len, v.Cap), ile(v.Off, lim), ile(v.Cap, lim), app(">=", "Bool", v.Ref, refT(0)), or(refPos(v.Ref), eq(v.Cap, intT(0)))))
		return true
	case name == "vsSameMap":
		f.env[x] = eq(args[0].(MapV).Ref, args[1].(MapV).Ref)
		return true
	case name == "vsOffsetOf": // generic OffsetIn, in elements
		a, b := args[0].(SliceV), args[1].(SliceV)
		inside := and(eq(a.Ref, b.Ref), refPos(a.Ref), ile(b.Off, a.Off), ile(a.Off, iadd(b.Off, b.Cap)))
		f.env[x] = e.name(s, ite(inside, e.binop(s, token.SUB, a.Off, b.Off, types.Typ[types.Int]), intT(-1)))
		return true
	case name == "vsDisjointOf": // generic Disjoint
		a, b := args[0].(SliceV), args[1].(SliceV)
		f.env[x] = e.name(s, or(not(eq(a.Ref, b.Ref)), ile(iadd(a.Off, a.Cap), b.Off), ile(iadd(b.Off, b.Cap), a.Off)))
		return true
	case name == "vsOffsetIn": // where sub starts inside whole's backing array (-1: it does not point into it)
		a, b := args[0].(SliceV), args[1].(SliceV)
		inside := and(eq(a.Ref, b.Ref), refPos(a.Ref), ile(b.Off, a.Off), ile(a.Off, iadd(b.Off, b.Cap)))
		f.env[x] = e.name(s, ite(inside, e.binop(s, token.SUB, a.Off, b.Off, types.Typ[types.Int]), intT(-1)))
		return true
	case name == "vsDisjoint": // backing ranges [off, off+cap) of two slices do not overlap
		a, b := args[0].(SliceV), args[1].(SliceV)
		f.env[x] = e.name(s, or(not(eq(a.Ref, b.Ref)), ile(iadd(a.Off, a.Cap), b.Off), ile(iadd(b.Off, b.Cap), a.Off)))
		return true
	case name == "vsRanged": // vsRanged(m, k): k was already produced by the active range loop over m
		m := args[0].(MapV)
		res := boolT(false)
		found := false
		for _, it := range s.iters {
			if sameTerm(it.M.Ref, m.Ref) {
				f.env[x] = e.name(s, sel(it.Vis, e.keyTerm(s, args[1]), "Bool"))
				return true
			}
			if mapTag(it.M) == mapTag(m) {
				found = true
				res = ite(eq(it.M.Ref, m.Ref), sel(it.Vis, e.keyTerm(s, args[1]), "Bool"), res)
			}
		}
		if !found {
			// no loop over such a map is active (e.g. invariant evaluated at loop entry before `range`): nothing ranged
			f.env[x] = boolT(false)
			return true
		}
		f.env[x] = e.name(s, res)
		return true
	case name == "vsForallKey": // vsForallKey(m, f): f holds for every key (quantifies over the whole key sort)
		m, cl := args[0].(MapV), args[1].(FuncV)
		ks, _ := sortOf(m.K)
		bv := "k!" + e.fresh("q")
		var kv Val = Term{S: bv, Sort: ks}
		if ks == "Str" {
			kv = StrV{T: Term{S: bv, Sort: ks}}
		}
		s.quant++
		q0 := len(s.qfacts)
		body := e.evalPure(s, cl.Fn, []Val{kv}, cl.Bind).(Term)
		body = implies(and(s.qfacts[q0:]...), body)
		s.qfacts = s.qfacts[:q0]
		s.quant--
		f.env[x] = e.name(s, Term{S: fmt.Sprintf("(forall ((%s %s)) %s)", bv, ks, body.S), Sort: "Bool"})
		return true
	case name == "vsForallKey2": // one quantifier over two keys
		m, cl := args[0].(MapV), args[1].(FuncV)
		ks, _ := sortOf(m.K)
		b1, b2 := "k!"+e.fresh("q"), "k!"+e.fresh("q")
		var k1, k2 Val = Term{S: b1, Sort: ks}, Term{S: b2, Sort: ks}
		if ks == "Str" {
			k1, k2 = StrV{T: Term{S: b1, Sort: ks}}, StrV{T: Term{S: b2, Sort: ks}}
		}
		s.quant++
		body := e.evalPure(s, cl.Fn, []Val{k1, k2}, cl.Bind).(Term)
		s.quant--
		f.env[x] = e.name(s, Term{S: fmt.Sprintf("(forall ((%s %s) (%s %s)) %s)", b1, ks, b2, ks, body.S), Sort: "Bool"})
		return true
	case name == "vsHas": // vsHas(m, k): key present, no value needed
		f.env[x] = e.mread(s, args[0].(MapV), "p", "Bool", e.keyTerm(s, args[1]))
		return true
	case name == "vsForall" || name == "vsExists":
		lo, hi, cl := s.res(args[0].(Term)), s.res(args[1].(Term)), args[2].(FuncV)
		f.env[x] = e.quant(s, name == "vsForall", lo, hi, cl)
		return true
	case atomicMethod(fn) != nil:
		e.atomicCall(s, f, x, fn, atomicMethod(fn), args)
		return true
	case (strings.HasPrefix(fn.String(), "sync.") || strings.HasPrefix(fn.String(), "(*sync.")) && fn.Signature.Results().Len() == 0:
		return true // Lock/Unlock/Put/Done/...: no effect on the sequential semantics
	}
	if e.opaque[fn.String()] || e.opaqueT[fn.String()] {
		var parts []Term
		for _, a := range args {
			switch v := a.(type) {
			case Term:
				parts = append(parts, v)
			case SliceV:
				so := elemSort(v.Elem)
				m := e.heapArr(s, "M_"+sortTag(so), refArrSort(arrSort(so)))
				parts = append(parts, e.name(s, sel(m, v.Ref, arrSort(so))), v.Off, v.Len)
			case StrV:
				if v.Const != nil {
					parts = append(parts, e.strConst(s, *v.Const))
				} else {
					parts = append(parts, v.T)
				}
			case ArrV:
				parts = append(parts, v.A)
			case PtrV: // a pointer to an array: the function depends on the array's contents
				if v.Kind == "arr" {
					parts = append(parts, e.load(s, v, types.NewArray(v.Elem, v.N)).(ArrV).A)
				} else if v.Nil {
					parts = append(parts, refT(0))
				} else {
					parts = append(parts, v.Ref) // any other pointer: the function of the object's identity
				}
			default:
				panic(fmt.Sprintf("opaque arg %T", a))
			}
		}
		rs, _ := sortOf(fn.Signature.Results().At(0).Type())
		uf := "uf_" + sortTag(strings.NewReplacer(".", "_", "/", "_", "(", "", ")", "", "*", "", "-", "").Replace(fn.String()))
		var sorts []string
		for _, p := range parts {
			sorts = append(sorts, p.Sort)
		}
		s.defs = append(s.defs, fmt.Sprintf("(declare-fun %s (%s) %s)", uf, strings.Join(sorts, " "), rs))
		f.env[x] = e.name(s, app(uf, rs, parts...))
		return true
	}
	if fn.String() == "errors.New" || fn.String() == "fmt.Errorf" {
		f.env[x] = IfaceV{IsNil: boolT(false), V: e.newRef(s)} // a fresh, non-nil error value
		return true
	}
	if c := e.ifaceContract(fn.String()); c != nil && s.spec == 0 {
		// a function with a body that is deliberately kept outside this proof: recorded in the ghost trace,
		// results constrained only by its assumed contract (nothing is havocked: listed as an assumption)
		if r := e.unknownCall(s, fn.String(), fn.Signature, nil, args); r != nil {
			f.env[x] = r
		}
		return true
	}
	if c := e.contracts[fn.String()]; c != nil && s.spec == 0 {
		if r := e.callModular(s, c, args); r != nil {
			f.env[x] = r
		}
		return true
	}
	if len(fn.Blocks) == 0 && fn.Pkg != nil && inlinablePkg(fn.Pkg.Pkg.Path()) {
		fn.Pkg.Build() // bodies of dependencies are built on demand
	}
	if len(fn.Blocks) == 0 {
		// default external rule: results unconstrained, the referents of pointer and slice arguments havocked
		// (unless the callee is known not to write them), effect recorded in the ghost trace
		if c := e.ifaceContract(fn.String()); c != nil {
			// an assumed contract says what the dependency may write: exactly its modifies= parameters (done in unknownCall,
			// after the arguments were frozen for old_x)
		} else if !readOnlyExternal(fn.String()) {
			for ai, a := range args {
				if ai == 0 && fn.Signature.Recv() != nil {
					continue // the receiver is the dependency's own object
				}
				if iv, ok := a.(IfaceV); ok { // json.Unmarshal(payload, &msg): a pointer handed over as interface{}
					if pv, ok := iv.V.(PtrV); ok {
						a = pv
					}
				}
				switch v := a.(type) {
				case SliceV:
					if _, ok := sortOf(v.Elem); ok {
						e.havocArg(s, v)
					}
				case PtrV:
					if !v.Nil && (v.Kind == "hcell" || v.Kind == "arr") {
						e.havocPtr(s, v)
					} else if !v.Nil && v.Kind == "struct" && len(v.Path) == 0 {
						e.havocStructSafe(s, v) // json.Unmarshal(payload, &msg) and the like fill the struct they are handed
					}
				}
			}
		}
		if r := e.unknownCall(s, fn.String(), fn.Signature, nil, args); r != nil {
			f.env[x] = r
		}
		return true
	}
	if s.spec > 0 || strings.HasPrefix(name, "spec") || strings.HasPrefix(name, "vs") {
		f.env[x] = e.evalPure(s, fn, args, bind)
		return true
	}
	// a helper that only computes a scalar from scalars (no heap, no calls out, no operation that can panic) is
	// evaluated in merged mode: its paths become ONE term instead of multiplying the caller's paths (a 23-step bit
	// scan extracted into a helper would otherwise turn every path of its caller into 24)
	if x != nil && !deferred && len(bind) == 0 && e.pureScalar(fn, 0) {
		allTerms := true
		for _, a := range args {
			if _, ok := a.(Term); !ok {
				allTerms = false
			}
		}
		if allTerms {
			if e.inlined == nil {
				e.inlined = map[string]bool{}
			}
			e.inlined[shortName(fn.String())+" (pure scalar helper: evaluated as one merged term)"] = true
			f.env[x] = e.evalPure(s, fn, args, nil)
			return true
		}
	}
	if len(s.frames) > 64 {
		panic("inlining too deep at " + fn.String())
	}
	if e.inlined == nil {
		e.inlined = map[string]bool{}
	}
	e.inlined[shortName(fn.String())] = true
	nf := e.newFrame(s, fn, args, bind, x, false)
	nf.deferRet = deferred
	if x == nil || deferred {
		nf.call = nil
	}
	s.frames = append(s.frames, nf)
	return false
}

func (e *Engine) quant(s *State, forall bool, lo, hi Term, cl FuncV) Term {
	if lo.C != nil && hi.C != nil && new(big.Int).Sub(hi.C, lo.C).Int64() <= 256 {
		var parts []Term
		for i := lo.C.Int64(); i < hi.C.Int64(); i++ {
			parts = append(parts, e.evalPure(s, cl.Fn, []Val{intT(i)}, cl.Bind).(Term))
		}
		if forall {
			return e.name(s, and(parts...))
		}
		return e.name(s, or(parts...))
	}
	bv := e.fresh("q")
	s.quant++
	q0 := len(s.qfacts)
	body := e.evalPure(s, cl.Fn, []Val{Term{S: bv, Sort: ISort(), C: nil}}, cl.Bind).(Term)
	if forall {
		body = implies(and(s.qfacts[q0:]...), body)
	} else {
		body = and(append(append([]Term(nil), s.qfacts[q0:]...), body)...)
	}
	s.qfacts = s.qfacts[:q0]
	s.quant--
	rng := and(ile(lo, Term{S: bv, Sort: ISort(), C: nil}), ilt(Term{S: bv, Sort: ISort(), C: nil}, hi))
	var q Term
	if forall && body.C != nil && body.C.Sign() != 0 {
		return boolT(true)
	}
	if forall {
		q = Term{S: fmt.Sprintf("(forall ((%s %s)) %s)", bv, ISort(), implies(rng, body).S), Sort: "Bool", C: nil}
	} else {
		q = Term{S: fmt.Sprintf("(exists ((%s %s)) %s)", bv, ISort(), and(rng, body).S), Sort: "Bool", C: nil}
	}
	return e.name(s, q)
}

func (e *Engine) copyB(s *State, dst SliceV, srcv Val) Term {
	src, ok := srcv.(SliceV)
	if !ok {
		panic("copy from string unsupported")
	}
	n := ite(ilt(dst.Len, src.Len), dst.Len, src.Len)
	n = s.res(n)
	so := elemSort(dst.Elem)
	nm := "M_" + sortTag(so)
	m := e.heapArr(s, nm, refArrSort(arrSort(so)))
	srcArr := sel(m, src.Ref, arrSort(so))
	dstArr := sel(m, dst.Ref, arrSort(so))
	if n.C != nil && n.C.Int64() <= 128 {
		// read all source elements first (memmove semantics)
		var vals []Term
		for i := int64(0); i < n.C.Int64(); i++ {
			vals = append(vals, e.read2(s, nm, src.Ref, iadd(src.Off, intT(i)), arrSort(so), so))
		}
		_ = dstArr
		for i, v := range vals {
			e.storeElem(s, dst.Ref, iadd(dst.Off, intT(int64(i))), dst.Elem, v)
		}
		return n
	}
	na := e.declare(s, "cp", arrSort(so))
	j := "j!" + e.fresh("c")
	jt := Term{S: j, Sort: ISort(), C: nil}
	inR := and(ile(dst.Off, jt), ilt(jt, iadd(dst.Off, n)))
	rhs := ite(inR, sel(srcArr, iadd(isub(jt, dst.Off), src.Off), so), sel(dstArr, jt, so))
	e.axiom(s, na, Term{S: fmt.Sprintf("(forall ((%s %s)) (= (select %s %s) %s))", j, ISort(), na.S, j, rhs.S), Sort: "Bool", C: nil})
	e.hset(s, nm, e.name(s, sto(m, dst.Ref, na)), HWrite{Ref: dst.Ref, Val: na, Whole: true})
	return n
}

func isIntKind(t types.Type) bool {
	b, ok := t.Underlying().(*types.Basic)
	return ok && (b.Kind() == types.Int || b.Kind() == types.UntypedInt)
}

// mapPresentArr materialises the key->present array of map m.
func (e *Engine) mapPresentArr(s *State, m MapV) Term {
	ks, _ := sortOf(m.K)
	nm := "MP_" + mapTag(m) + "$p"
	e.heapArr(s, nm, refArrSort(arr2(ks, "Bool")))
	return e.name(s, sel(s.heap[nm], m.Ref, arr2(ks, "Bool")))
}

// appendB models append(h, p...) exactly: in place when capacity allows, otherwise a fresh array.
func (e *Engine) appendB(s *State, f *Frame, x ssa.Value, h SliceV, pv Val) bool {
	var p SliceV
	switch v := pv.(type) {
	case SliceV:
		p = v
	case StrV: // append([]byte, string...)
		p = e.strToBytes(s, v)
	default:
		panic(fmt.Sprintf("append of %T", pv))
	}
	leaves := elemLeaves(h.Elem, elemPrefix(h.Elem))
	n := iadd(h.Len, p.Len)
	fits := ile(n, h.Cap)
	mk := func(st *State, fresh bool) {
		var r, cp Term
		if fresh {
			r = e.newRef(st)
			cp = e.declare(st, "cap", ISort())
			e.assume(st, ile(n, cp))
		}
		one := p.Len.C != nil && p.Len.C.Int64() == 1 && !fresh
		for _, l := range leaves {
			so := l.sort
			m := e.leafArr(st, l)
			if one { // append(h, v) in place: a single store, no quantifier
				v := e.readLeaf(st, l, p.Ref, p.Off)
				e.writeLeaf(st, l, h.Ref, iadd(h.Off, h.Len), v)
				continue
			}
			na := e.declare(st, "ap", arrSort(so))
			j := "j!" + e.fresh("a")
			jt := Term{S: j, Sort: ISort()}
			if !fresh {
				start := iadd(h.Off, h.Len)
				in := and(ile(start, jt), ilt(jt, iadd(start, p.Len)))
				rhs := ite(in, sel(sel(m, p.Ref, arrSort(so)), iadd(isub(jt, start), p.Off), so), sel(sel(m, h.Ref, arrSort(so)), jt, so))
				e.axiom(st, na, Term{S: fmt.Sprintf("(forall ((%s %s)) (= (select %s %s) %s))", j, ISort(), na.S, j, rhs.S), Sort: "Bool"})
				e.hset(st, l.name, e.name(st, sto(m, h.Ref, na)), HWrite{Ref: h.Ref, Val: na, Whole: true})
				continue
			}
			inH := and(ile(intT(0), jt), ilt(jt, h.Len))
			inP := and(ile(h.Len, jt), ilt(jt, n))
			rhs := ite(inH, sel(sel(m, h.Ref, arrSort(so)), iadd(h.Off, jt), so), ite(inP, sel(sel(m, p.Ref, arrSort(so)), iadd(isub(jt, h.Len), p.Off), so), zeroOf(so)))
			e.axiom(st, na, Term{S: fmt.Sprintf("(forall ((%s %s)) (= (select %s %s) %s))", j, ISort(), na.S, j, rhs.S), Sort: "Bool"})
			e.hset(st, l.name, e.name(st, sto(m, r, na)), HWrite{Ref: r, Val: na, Whole: true})
		}
		if fresh {
			e.top(st).env[x] = SliceV{r, intT(0), n, cp, h.Elem}
		} else {
			e.top(st).env[x] = SliceV{h.Ref, h.Off, n, h.Cap, h.Elem}
		}
	}
	if fits.C != nil {
		mk(s, fits.C.Sign() == 0)
		return true
	}
	o := s.clone()
	e.branch(o, not(fits))
	mk(o, true)
	e.top(o).idx++
	e.pending = append(e.pending, o)
	e.branch(s, fits)
	mk(s, false)
	return true
}

// runPar explores the top-level function with several workers; term construction is serialised by the engine
// lock, which is released while a worker waits for its solver session.
func (e *Engine) runPar(init *State, base int) []*State {
	if e.workers <= 1 || !e.prune {
		return e.run(init, base)
	}
	var fin []*State
	work := []*State{init}
	active := 0
	cond := sync.NewCond(&e.mu)
	var wg sync.WaitGroup
	var failure interface{}
	e.par = true
	for w := 0; w < e.workers; w++ {
		wg.Add(1)
		go func() {
			defer wg.Done()
			var sess *session
			e.mu.Lock()
			defer e.mu.Unlock()
			for {
				for len(work) == 0 && active > 0 && failure == nil {
					cond.Wait()
				}
				if len(work) == 0 || failure != nil {
					cond.Broadcast()
					return
				}
				s := work[len(work)-1]
				work = work[:len(work)-1]
				active++
				func() {
					defer func() {
						if r := recover(); r != nil {
							if _, ok := r.(pathKilled); !ok {
								failure = r
								if os.Getenv("GOVC_STACK") != "" {
									fmt.Fprintf(os.Stderr, "worker panic: %v\n%s\n", r, debug.Stack())
								}
							}
							s.dead = true
						}
					}()
					for !s.done {
						if len(s.frames) < base {
							s.done = true
							break
						}
						n0 := len(s.pc)
						fk := e.step(s)
						for _, o := range fk {
							if e.feasibleS(&sess, o) {
								work = append(work, o)
								cond.Signal()
							}
						}
						if len(fk) > 0 && len(s.pc) > n0 && !s.done && !e.feasibleS(&sess, s) {
							s.dead, s.done = true, true
						}
					}
				}()
				e.paths++
				if e.paths-e.pathBase > 20000 && failure == nil {
					failure = "path explosion"
				}
				if time.Now().After(e.genDeadline) && failure == nil && !e.genDeadline.IsZero() {
					failure = "exploration budget exhausted (the function under contract no longer explores in bounded time)"
				}
				if !s.dead {
					fin = append(fin, s)
				}
				active--
				cond.Broadcast()
			}
		}()
	}
	wg.Wait()
	e.par = false
	if failure != nil {
		panic(failure)
	}
	return fin
}

func originPkg(fn *ssa.Function) *ssa.Package {
	if fn.Pkg != nil {
		return fn.Pkg
	}
	if o := fn.Origin(); o != nil {
		return o.Pkg
	}
	return nil
}

// inlinablePkg: callees from the repository itself and from a short allow-list of pure std packages are inlined
// from their own SSA; everything else needs a stub.
func inlinablePkg(path string) bool {
	if strings.HasPrefix(path, "github.com/emitter-io/emitter/") {
		return true
	}
	switch path {
	case "encoding/binary", "math/bits":
		return true
	}
	return false
}

// readOnlyExternal lists external callees that do not write through their arguments (documented behaviour).
func readOnlyExternal(name string) bool {
	for _, p := range []string{"fmt.", "errors.", "strconv.", "strings.", "bytes.", "time.", "(time.", "(*time.", "math.", "unicode", "sort.Search", "encoding/base64.", "(*encoding/base64.", "regexp.", "(*regexp.", "github.com/emitter-io/emitter/internal/provider/logging."} {
		if strings.HasPrefix(name, p) {
			return true
		}
	}
	return false
}

func (e *Engine) havocPtr(s *State, p PtrV) {
	switch p.Kind {
	case "hcell":
		e.storeHeapVal(s, "C", p.Ref, p.Elem, e.symbolic(s, "hv", p.Elem))
	case "arr":
		so := elemSort(p.Elem)
		nm := "M_" + sortTag(so)
		m := e.heapArr(s, nm, refArrSort(arrSort(so)))
		na := e.declare(s, "hv", arrSort(so))
		e.hset(s, nm, e.name(s, sto(m, p.Ref, na)), HWrite{Ref: p.Ref, Val: na, Whole: true})
	}
}

// havocStructSafe forgets every field of the struct p points to that the memory model can represent.
func (e *Engine) havocStructSafe(s *State, p PtrV) {
	for i := 0; i < p.StT.NumFields(); i++ {
		nm, ft := e.fieldHeapName(p, i)
		if isSyncType(ft) && atomicValT(ft) == nil {
			continue
		}
		func() {
			defer func() { recover() }() // a field of a type outside the subset keeps its (unknown) value
			e.storeHeapVal(s, nm, p.Ref, ft, e.symbolic(s, "hv", ft))
		}()
	}
}

// annBinds: every local the annotation's invariant / variant functions name exists in frame f at this point.
func (e *Engine) annBinds(f *Frame, ann *LoopAnn) bool {
	names := append([]string{}, ann.Invs...)
	if ann.Decr != "" {
		names = append(names, ann.Decr)
	}
	for _, nm := range names {
		fn := f.fn.Pkg.Func(nm)
		if fn == nil {
			return false
		}
		for _, p := range fn.Params {
			pn := p.Name()
			if strings.HasPrefix(pn, "old_") || (strings.HasPrefix(pn, "head") && strings.Contains(pn, "_")) {
				continue
			}
			if c, ok := f.entry["$cell:"+pn]; ok {
				if cc, isC := c.(*Cell); isC && cc.T != nil && !sameShape(cc.T, p.Type()) {
					return false
				}
				continue
			}
			if c, ok := f.entry["$ptr:"+pn]; ok {
				if cp, isP := c.(PtrV); isP && cp.Kind == "hcell" && cp.Elem != nil && !sameShape(cp.Elem, p.Type()) {
					return false
				}
				continue
			}
			if _, ok := e.rangeAlias(nil, f, pn, p.Type()); ok {
				continue
			}
			return false
		}
	}
	return true
}

// rangeAlias: an invariant written for `for i := 0; i < len(x); i++` names the counter i; after the harmless
// rewrite to `for i := range x` the counter lives in go/ssa's hidden "rangeindex" (one behind: it is incremented at
// the loop head) and i is only assigned inside the body. The invariant's i is then rangeindex+1 - the index the
// next iteration will use, which is what i meant at the head of the classic loop.
func (e *Engine) rangeAlias(s *State, f *Frame, nm string, t types.Type) (Val, bool) {
	b, isB := t.Underlying().(*types.Basic)
	if !isB || b.Kind() != types.Int {
		return nil, false
	}
	c, ok := f.entry["$cell:rangeindex"]
	if !ok {
		return nil, false
	}
	declared := false
	for _, blk := range f.fn.Blocks {
		for _, in := range blk.Instrs {
			if a, ok := in.(*ssa.Alloc); ok && a.Comment == nm {
				declared = true
			}
		}
	}
	if !declared {
		return nil, false
	}
	if s == nil {
		return intT(0), true
	}
	ri, ok := s.cellv[c.(*Cell)].(Term)
	if !ok {
		return nil, false
	}
	if e.rebound == nil {
		e.rebound = map[string]bool{}
	}
	e.rebound[fmt.Sprintf("%s: invariant parameter %s bound to rangeindex+1 (the loop was rewritten from a counting loop to a range loop)", shortName(f.fn.String()), nm)] = true
	return e.name(s, iadd(ri, intT(1))), true
}

// pureScalar: fn takes and returns scalars only and its body consists of arithmetic on locals, branches and calls of
// functions of the same kind - nothing that touches the heap, leaves the verified code or can panic.
func (e *Engine) pureScalar(fn *ssa.Function, depth int) bool {
	if e.pureFn == nil {
		e.pureFn = map[*ssa.Function]bool{}
	}
	if v, ok := e.pureFn[fn]; ok {
		return v
	}
	e.pureFn[fn] = false // (recursion counts as not pure)
	if fn == nil || len(fn.Blocks) == 0 || depth > 3 || len(fn.FreeVars) > 0 {
		return notPure(fn, 1)
	}
	if _, has := e.contracts[fn.String()]; has {
		return notPure(fn, 2)
	}
	isScalar := func(t types.Type) bool {
		b, ok := t.Underlying().(*types.Basic)
		return ok && b.Info()&(types.IsInteger|types.IsBoolean) != 0
	}
	sig := fn.Signature
	if sig.Recv() != nil || sig.Results().Len() != 1 || !isScalar(sig.Results().At(0).Type()) {
		return notPure(fn, 3)
	}
	for i := 0; i < sig.Params().Len(); i++ {
		if !isScalar(sig.Params().At(i).Type()) {
			return notPure(fn, 4)
		}
	}
	for _, b := range fn.Blocks {
		for _, in := range b.Instrs {
			switch x := in.(type) {
			case *ssa.RunDefers: // (NaiveForm emits the defer bookkeeping even when nothing is deferred; a Defer is rejected below)
			case *ssa.Alloc:
				if x.Comment == "defer$stack" {
					continue
				}
				if x.Heap || !isScalar(x.Type().(*types.Pointer).Elem()) {
					return notPure(fn, 5)
				}
			case *ssa.Store:
				if _, ok := x.Addr.(*ssa.Alloc); !ok {
					return notPure(fn, 6)
				}
			case *ssa.UnOp:
				if x.Op == token.MUL {
					if _, ok := x.X.(*ssa.Alloc); !ok {
						return notPure(fn, 7)
					}
				} else if x.Op == token.ARROW {
					return notPure(fn, 8)
				}
			case *ssa.BinOp:
				if x.Op == token.QUO || x.Op == token.REM {
					return notPure(fn, 9)
				}
			case *ssa.Convert:
				if !isScalar(x.Type()) || !isScalar(x.X.Type()) {
					return notPure(fn, 10)
				}
			case *ssa.ChangeType, *ssa.Phi, *ssa.If, *ssa.Jump, *ssa.Return, *ssa.DebugRef:
			case *ssa.Call:
				if b, ok := x.Call.Value.(*ssa.Builtin); ok && b.Name() == "ssa:deferstack" {
					continue
				}
				callee := x.Call.StaticCallee()
				if callee == nil || x.Call.IsInvoke() || !e.pureScalar(callee, depth+1) {
					return notPure(fn, 11)
				}
			default:
				if os.Getenv("GOVC_PUREDBG") != "" {
					fmt.Fprintf(os.Stderr, "not pure %s: %T %s\n", fn, in, in)
				}
				return notPure(fn, 12)
			}
		}
	}
	e.pureFn[fn] = true
	return true
}

func notPure(fn *ssa.Function, where int) bool {
	if os.Getenv("GOVC_PUREDBG") != "" && fn != nil {
		fmt.Fprintf(os.Stderr, "not pure %s: rule %d\n", fn, where)
	}
	return false
}

// sameShape: a local of type a can be what a spec parameter of type b names.
func sameShape(a, b types.Type) bool {
	return types.Identical(a, b) || types.Identical(a.Underlying(), b.Underlying())
}
