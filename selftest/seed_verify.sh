#!/bin/bash
# usage: seed_verify.sh <seed-dir> <demo-pkg-relpath> : confirms in a scratch worktree of /repo (outside /repo and
# /verif) that the demonstration fails with the seeded change and passes without it. Removes the worktree afterwards.
set -u
seed=$1; pkg=$2
export GOFLAGS=-mod=mod GOPROXY=off
wt=$(mktemp -d /tmp/seedwt.XXXXXX); rmdir $wt
git -C /repo worktree add -q --detach $wt HEAD || exit 2
cp $seed/demo_test.go $wt/$pkg/zz_demo_test.go
( cd $wt && timeout 600 go test -vet=off -count=1 -run TestSeedDemo ./$pkg/ >/tmp/seed_without.log 2>&1 ); without=$?
( cd $wt && git apply $seed/patch.diff ) || { echo "PATCH DOES NOT APPLY"; git -C /repo worktree remove --force $wt; exit 2; }
( cd $wt && timeout 600 go build ./... >/tmp/seed_build.log 2>&1 ); build=$?
( cd $wt && timeout 600 go test -vet=off -count=1 -run TestSeedDemo ./$pkg/ >/tmp/seed_with.log 2>&1 ); with=$?
rm $wt/$pkg/zz_demo_test.go
git -C /repo worktree remove --force $wt
echo "build=$build demo_without_change=$without (want 0) demo_with_change=$with (want non-zero)"
[ $build = 0 ] && [ $without = 0 ] && [ $with != 0 ]
