#!/usr/bin/env python3
# usage: seed_prompt.py <property-id> <scratch-dir> : prints the prompt given to an independent sub-agent that is to
# write a property-breaking change. The agent sees the property text and its anchor list only - nothing from /verif.
import json, sys
pid, wt = sys.argv[1], sys.argv[2]
props = {json.loads(l)['id']: json.loads(l) for l in open('/verif/properties.jsonl')}
p = props[pid]
print(f'''You are helping test a verification effort for the open-source Go project emitter-io/emitter (an MQTT pub/sub broker). A scratch copy of the repository (its own git repo) is at {wt} . Work ONLY inside that directory (never touch /repo or /verif, and do not read them).

Go environment for every shell command: `export GOFLAGS=-mod=mod GOPROXY=off` (no network; do NOT set GOTOOLCHAIN or GOSUMDB). Run tests with e.g. `go test -vet=off -count=1 ./internal/...` (first build of a package takes ~40 s). In this sandbox three tests fail for network reasons on the untouched tree as well (internal/network/http TestNewClient, internal/provider/monitor TestStatsd_*, internal/service/cluster TestJoin) and internal/network/listener TestTimeout is flaky: ignore those.

Here is a semantic property the project is supposed to satisfy:

  {pid}: {p['title']}
  {p['statement']}
  Code it is anchored in: {', '.join(p['anchors']['files'])}

TASK: produce ONE realistic change to the project's non-test source code (the kind of change a developer might plausibly make: an optimisation, a refactoring, a "simplification", a fast path, a boundary tweak, an edit at two cooperating sites that each look fine alone) that BREAKS this property while:
  (a) the project still compiles (`go build ./...`),
  (b) the existing test suite still passes unchanged (`go test -vet=off -count=1 ./...` from the repository root must stay as green as it is on the untouched tree - do not edit or delete existing tests),
  (c) the breakage needs something specific to manifest - a particular unusual input, a boundary value, a multi-step sequence of operations, a particular state, or two cooperating sites - NOT something ordinary use would expose at once.
Do not merely add a panic or an obviously malicious branch keyed on a magic constant; make it look like an honest mistake in the real logic.

Also write a demonstration: a new Go test file named zz_demo_test.go, placed in the package directory of your choice inside the scratch copy, with a test function named TestSeedDemo, that PASSES on the original code and FAILS with your change. It must use only what exists in the repository (in-package test, no new dependencies).

Verify all of it yourself: (1) without your change: TestSeedDemo passes; (2) with your change: `go build ./...` ok, the full existing suite passes as on the untouched tree when zz_demo_test.go is absent, and TestSeedDemo fails.

Deliver, inside {wt}/_seed/ :
  - patch.diff : `git diff` of your source change only (must not include zz_demo_test.go or _seed), applicable with `git apply` at the repository root
  - demo_test.go : copy of your zz_demo_test.go
  - notes.md : which package directory the demo belongs in (relative path), what the change is, why it breaks the property, what specific circumstances it needs to manifest, and the exact commands you ran with their outcomes.
Leave the scratch copy with your change applied and zz_demo_test.go in place. In your final answer, summarise the change in a few sentences and give the demo package path.''')
