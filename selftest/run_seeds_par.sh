#!/bin/bash
# usage: run_seeds_par.sh [workers] : like run_seeds.sh (every kept seeded change against the check of the property
# it breaks) but several at a time, each in a scratch worktree of /repo's HEAD (outside /repo and /verif, removed
# afterwards; govc --repo <worktree>) - /repo itself is never modified. Exit 0 iff every seed not recorded as
# "expected": "missed" is caught.
cd /verif; workers=${1:-3}
one() {
  d=$1; id=$(basename $d)
  prop=$(python3 -c "import json;print(json.load(open('$d/meta.json'))['breaks'])")
  exp=$(python3 -c "import json;print(json.load(open('$d/meta.json')).get('expected','caught'))")
  wt=$(mktemp -d /tmp/seedpar.XXXXXX); rmdir $wt
  git -C /repo worktree add -q --detach $wt HEAD || { echo "ERROR   $id: no worktree"; return; }
  if git -C $wt apply /verif/$d/patch.diff; then
    out=$(GOVC_PAR=8 timeout 1200 ./bin/govc check $prop --no-evidence --repo $wt 2>&1)
    if echo "$out" | grep -q "^VIOLATION property=$prop"; then r=caught; else r=MISSED; fi
    if [ "$exp" = missed ]; then
      if [ $r = caught ]; then echo "caught  $id ($prop) although recorded as expected-missed"; else echo "skipped $id ($prop): recorded as not detectable by this machinery (confirmed: no VIOLATION line)"; fi
    else
      echo "$r  $id ($prop)"; [ $r = MISSED ] && echo "$out" | grep -E "^(UNDECIDED|NOTE|property)" | cut -c1-200 | sed 's/^/        /'
    fi
  else
    echo "ERROR   $id: patch does not apply"
  fi
  git -C /repo worktree remove --force $wt
}
export -f one
ls -d seeded/*/ | sed 's:/$::' | xargs -P $workers -I{} bash -c 'one {}' | tee /tmp/run_seeds_par.out
! grep -q "^MISSED\|^ERROR" /tmp/run_seeds_par.out
