#!/bin/bash
# usage: benign_run.sh <patch.diff> : applies a behaviour-preserving change to /repo, runs the quick check of every
# property whose packages the change touches, and undoes the change. Every check must exit 0 (no alarm on code
# where the property holds). Prints one line per check.
patch=$1
if [ -n "$(git -C /repo status --short | grep -v '^??')" ]; then echo "/repo has uncommitted changes"; exit 2; fi
git -C /repo apply $patch || { echo "PATCH DOES NOT APPLY"; exit 2; }
ids=$(python3 - "$patch" <<'PY'
import json,sys,re
pkgs=set()
for l in open(sys.argv[1]):
    m=re.match(r'\+\+\+ b/(.*)/[^/]+\.go',l)
    if m: pkgs.add(m.group(1))
p=json.load(open('/verif/props/props.json'))
print(' '.join(k for k,v in p.items() if pkgs & set(v['packages'])))
PY
)
fail=0
for id in $ids; do
  out=$(cd /verif && timeout 1200 ./bin/govc check $id --no-evidence 2>&1); code=$?
  echo "check $id exit=$code"
  [ $code != 0 ] && { echo "$out" | grep -E "^(VIOLATION|UNDECIDED)" | cut -c1-300; fail=1; }
done
git -C /repo apply -R $patch || git -C /repo checkout -- .
exit $fail
