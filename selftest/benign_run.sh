#!/bin/bash
# usage: benign_run.sh <patch.diff>... : for each behaviour-preserving change: applies it to a scratch worktree of
# /repo's HEAD (outside /repo and /verif, removed at the end), runs the quick check of every property whose
# packages the change touches (govc --repo <worktree>), and undoes it. Every check must exit 0: no alarm on code
# where the property holds. Prints one line per check; exit 0 iff no check raised anything.
wt=$(mktemp -d /tmp/benignrepo.XXXXXX); rmdir $wt
git -C /repo worktree add -q --detach $wt HEAD || exit 2
fail=0
for patch in "$@"; do
  echo "== $(basename $patch)"
  git -C $wt apply $patch || { echo "PATCH DOES NOT APPLY"; fail=1; continue; }
  ids=$(python3 - "$patch" <<'PY'
import json,sys,re
pkgs=set()
for l in open(sys.argv[1]):
    m=re.match(r'\+\+\+ b/(.*)/[^/]+\.go',l)
    if m: pkgs.add(m.group(1))
p=json.load(open('/verif/props/props.json'))
print(' '.join(k for k,v in p.items() if pkgs & set(v['packages'])))
PY
)
  for id in $ids; do
    out=$(cd /verif && timeout 1200 ./bin/govc check $id --no-evidence --repo $wt 2>&1); code=$?
    echo "check $id exit=$code"
    [ $code != 0 ] && { echo "$out" | grep -E "^(VIOLATION|UNDECIDED)" | cut -c1-300; fail=1; }
  done
  git -C $wt checkout -q -- . ; git -C $wt clean -qfd
done
git -C /repo worktree remove --force $wt
exit $fail
