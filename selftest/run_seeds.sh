#!/bin/bash
# Re-runs every kept seeded change against the checks that should catch it. Exit 0 iff every seed is caught.
cd /verif; fail=0
for d in seeded/*/; do
  id=$(basename $d); prop=$(python3 -c "import json;print(json.load(open('$d/meta.json'))['breaks'])")
  exp=$(python3 -c "import json;print(json.load(open('$d/meta.json')).get('expected','caught'))")
  if [ "$exp" = missed ]; then echo "skipped $id ($prop): recorded as not detectable by this machinery"; continue; fi
  out=$(./selftest/seed_run.sh /verif/$d $prop 2>&1)
  if echo "$out" | grep -q "^VIOLATION property=$prop"; then echo "caught  $id ($prop)"; else echo "MISSED  $id ($prop)"; echo "$out" | tail -3; fail=1; fi
done
exit $fail
