#!/bin/bash
# usage: seed_suite.sh <seed-dir> : runs the whole existing test-suite with the seeded change applied, in a scratch
# worktree of /repo (outside /repo and /verif, removed afterwards). Prints the failing packages (if any).
seed=$1
export GOFLAGS=-mod=mod GOPROXY=off
wt=$(mktemp -d /tmp/seedwt.XXXXXX); rmdir $wt
git -C /repo worktree add -q --detach $wt HEAD || exit 2
( cd $wt && git apply $seed/patch.diff ) || { echo "PATCH DOES NOT APPLY"; git -C /repo worktree remove --force $wt; exit 2; }
( cd $wt && timeout 1500 go test -vet=off -count=1 ./... 2>&1 | grep -E "^(FAIL|--- FAIL|panic)" | sort | uniq -c )
git -C /repo worktree remove --force $wt
