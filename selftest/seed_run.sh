#!/bin/bash
# usage: seed_run.sh <seed-dir> <property-id>... : applies the seeded change to /repo, runs the quick check of each
# property, and undoes the change straight afterwards. Prints one line per check.
seed=$1; shift
if [ -n "$(git -C /repo status --short | grep -v '^??')" ]; then echo "/repo has uncommitted changes: commit them first"; exit 2; fi
git -C /repo apply $seed/patch.diff || { echo "PATCH DOES NOT APPLY to /repo"; exit 2; }
for id in "$@"; do
  out=$(cd /verif && timeout 900 ./bin/govc check $id --no-evidence 2>&1); code=$?
  echo "check $id exit=$code"
  echo "$out" | grep -E "^(VIOLATION|UNDECIDED|KNOWN-FINDING)" | cut -c1-330
done
git -C /repo apply -R $seed/patch.diff || git -C /repo checkout -- .
git -C /repo status --short | grep -v '^??' | head
