#!/bin/bash
# runs every registered quick check on the unchanged tree; exit 0 iff all exit 0
cd /verif; fail=0
for id in $(python3 -c "import json;print(' '.join(c['property_id'] for c in json.load(open('MANIFEST.json'))['checks']))"); do
  out=$(timeout 1200 ./bin/govc check $id 2>&1); code=$?
  echo "$id exit=$code $(echo "$out" | grep '^property=' | cut -c1-160)"
  [ $code != 0 ] && { echo "$out" | grep -E "^(VIOLATION|UNDECIDED)" | cut -c1-300; fail=1; }
done
exit $fail
