package pubsub

// Demonstration for the C07 finding "a ttl beyond 2^32-1 seconds wraps to a small number (2^32 -> 0: the message is
// not stored at all, even with the retain flag)" - obligation (*pubsub.Service).OnPublish#ensures[post_OnPublish_store].
// Run against the real code with
//   go test -overlay <ov.json> -vet=off -run TestTTLWrapDemo ./internal/service/pubsub/

import (
	"testing"
	"time"

	"github.com/emitter-io/emitter/internal/message"
	"github.com/emitter-io/emitter/internal/network/mqtt"
	"github.com/emitter-io/emitter/internal/provider/storage"
	"github.com/emitter-io/emitter/internal/security"
	"github.com/emitter-io/emitter/internal/service/fake"
)

func TestTTLWrapDemo(t *testing.T) {
	ssid := message.Ssid{1, 3238259379, 500706888, 1027807523}
	for _, topic := range []string{"key/a/b/c/?ttl=4294967296", "key/a/b/c/?ttl=4294967295", "key/a/b/c/?ttl=8589934592"} {
		store := storage.NewInMemory(nil)
		store.Configure(nil)
		auth := &fake.Authorizer{Contract: 1, Success: true, ExtraPerm: security.AllowStore}
		s := New(auth, store, new(fake.Notifier), message.NewTrie())
		if err := s.OnPublish(new(fake.Conn), &mqtt.Publish{Header: mqtt.Header{Retain: true}, Topic: []byte(topic), Payload: []byte("x")}); err != nil {
			t.Fatalf("%s: publish refused: %v", topic, err)
		}
		msgs, _ := store.Query(ssid, time.Unix(0, 0), time.Now().Add(time.Hour), nil, 100)
		if len(msgs) != 1 {
			t.Errorf("%s (retain flag set, store permission): %d message(s) stored, want 1", topic, len(msgs))
		}
	}
}
