package security

// Demonstration for the C03 finding "a key whose target ends in '+' levels behind a literal authorizes nothing"
// (isolated obligation (security.Key).SetTarget{depth}#ensures[post_SetTarget_depth]).
//   go test -overlay <ov.json> -vet=off -run TestTrailingPlusTargetDemo ./internal/security/
// The property: "its target covers the channel: equal levels where the target has literals, any level where it has
// '+', the same depth for exact targets". A key issued for a/+/ must therefore cover a/x/ - it does not, because
// SetTarget hashes the two levels "a/+" while ValidateChannel, reading the depth off the lowest literal bit of
// the path, hashes only "a".

import "testing"

func TestTrailingPlusTargetDemo(t *testing.T) {
	for _, tc := range []struct{ target, channel string }{
		{"a/+/", "a/x/"},
		{"a/b/+/", "a/b/c/"},
		{"a/+/#/", "a/x/y/"},
	} {
		k := Key(make([]byte, 24))
		if err := k.SetTarget(tc.target); err != nil {
			t.Fatalf("SetTarget(%q): %v", tc.target, err)
		}
		ch := ParseChannel([]byte("emitter/" + tc.channel))
		if ch.ChannelType == ChannelInvalid {
			t.Fatalf("channel %q does not parse", tc.channel)
		}
		if !k.ValidateChannel(ch) {
			t.Errorf("a key issued for %q does not cover %q", tc.target, tc.channel)
		}
	}
	// sanity: the same shapes with a literal last level work
	k := Key(make([]byte, 24))
	k.SetTarget("a/+/c/")
	if !k.ValidateChannel(ParseChannel([]byte("emitter/a/x/c/"))) {
		t.Errorf("a/+/c/ should cover a/x/c/")
	}
}
