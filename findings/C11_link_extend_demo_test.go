package link

// Demonstration for the C11 finding "link auto-subscribe accepts an extendable key" (obligation
// (*link.Service).OnRequest#ensures[post_link_noextend]). Run against the real code with
//   go test -overlay <ov.json> -vet=off -run TestLinkExtendableKeyDemo ./internal/service/link/
// Before the fix (commit recorded in known_findings.json) the connection ended up subscribed although the very
// same key is refused with ErrUnauthorizedExt by the SUBSCRIBE handler; after it, it is not.

import (
	"encoding/json"
	"testing"

	"github.com/emitter-io/emitter/internal/security"
	"github.com/emitter-io/emitter/internal/service/fake"
)

func TestLinkExtendableKeyDemo(t *testing.T) {
	pubsub := new(fake.PubSub)
	auth := &fake.Authorizer{Contract: 1, Success: true, Target: "a/b/c/", ExtraPerm: security.AllowExtend}
	b, _ := json.Marshal(&Request{Name: "a", Key: "key", Channel: "a/b/c/", Subscribe: true})
	s := New(auth, pubsub)
	c := new(fake.Conn)
	if _, ok := s.OnRequest(c, b); !ok {
		t.Fatal("link request refused")
	}
	if pubsub.Trie != nil && pubsub.Trie.Count() != 0 {
		t.Fatalf("an extendable key was used to subscribe through a link: %d subscription(s) made", pubsub.Trie.Count())
	}
}
