package survey

// Demonstration for the C09 finding "a survey request whose channel has no '/' panics on the gossip goroutine"
// (obligation (*survey.Surveyor).onRequest#safe.index@(*survey.Surveyor).onRequest[1]).
//   go test -overlay <ov.json> -vet=off -run TestSurveyChannelDemo ./internal/service/survey/
// The surveyor is an ordinary subscriber of the system query channel; a frame from a peer (cluster port) carrying a
// message for that channel is handed to Send on a goroutine without recover. Channel text is the peer's.

import (
	"testing"

	"github.com/emitter-io/emitter/internal/message"
)

func TestSurveyChannelDemo(t *testing.T) {
	s := New(nil, nil)
	for _, channel := range []string{"ssdstore", "", "presence"} {
		func() {
			defer func() {
				if r := recover(); r != nil {
					t.Errorf("a survey request with channel %q panicked: %v", channel, r)
				}
			}()
			s.Send(&message.Message{
				ID:      message.NewID(message.Ssid{idSystem, idQuery, 1}),
				Channel: []byte(channel),
				Payload: []byte("x"),
			})
		}()
	}
}
