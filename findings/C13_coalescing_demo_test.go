package event

import "testing"

// What weaveworks/mesh's gossipSender does when a second payload is queued for a link before the first one was
// sent:  pending = pending.Merge(new)   (gossip.go: s.gossip = s.gossip.Merge(data)) - and later sends `pending`.
func TestCoalescingLosesQueuedPayload(t *testing.T) {
	a, b := NewState(""), NewState("")
	x, y := Ban("key-x"), Ban("key-y")
	a.Add(&x) // payload A, queued first: carries x
	b.Add(&y) // payload B, queued second: carries y
	pending := a.Merge(b)
	if pending == nil {
		t.Fatal("pending payload became nil")
	}
	p := pending.(*State)
	if !p.Has(&y) {
		t.Fatal("y missing")
	}
	if !p.Has(&x) {
		t.Errorf("LOST: the payload that will be sent no longer carries x (it is only B's delta)")
	}
	// and when the second payload brings nothing new, the pending payload disappears altogether
	c, d := NewState(""), NewState("")
	c.Add(&x)
	d2 := c.Merge(d)
	if d2 == nil {
		t.Errorf("LOST: pending.Merge(empty) returned nil - the queued payload with x is dropped")
	}
}
