package cipher

import (
	"encoding/base64"
	"testing"

	"github.com/emitter-io/emitter/internal/security"
)

func TestTamperStreamCiphers(t *testing.T) {
	key := make([]byte, 32)
	for i := range key {
		key[i] = byte(i * 7)
	}
	sal, _ := NewSalsa(key, make([]byte, 24))
	shu, _ := NewShuffle(key, make([]byte, 16))
	for name, c := range map[string]interface {
		EncryptKey(security.Key) (string, error)
		DecryptKey([]byte) (security.Key, error)
	}{"salsa(v2)": sal, "shuffle(v3)": shu} {
		k := security.Key(make([]byte, 24))
		k.SetSalt(999)
		k.SetContract(123)
		k.SetSignature(456)
		k.SetPermissions(security.AllowRead)
		s, _ := c.EncryptKey(k)
		raw, _ := base64.RawURLEncoding.DecodeString(s)
		raw[15] ^= security.AllowWrite // the attacker flips one ciphertext bit, no secret needed
		forged := base64.RawURLEncoding.EncodeToString(raw)
		out, err := c.DecryptKey([]byte(forged))
		if err != nil {
			t.Fatalf("%s: forged key rejected: %v", name, err)
		}
		if out.Contract() == 123 && out.Signature() == 456 && out.HasPermission(security.AllowWrite) {
			t.Errorf("%s: FORGED key accepted with WRITE permission (original had read only): %s -> %s", name, s, forged)
		}
	}
}
